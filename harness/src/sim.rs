//! Op language + interpreter over a World, with a protocol ledger (not a wallet model).

use crate::rt::idx;
use crate::snap::{self, View};
use crate::world::{Wal, World};
use grin_core::core::Transaction;
use grin_keychain::Identifier;
use grin_util::secp::pedersen::Commitment;
use grin_wallet_libwallet::{
	InitTxArgs, IssueInvoiceTxArgs, OutputStatus, Slate, SlateVersion, SlatepackAddress, TxLogEntryType,
	VersionedSlate,
};
use serde_derive::{Deserialize, Serialize};
use std::collections::{BTreeMap, BTreeSet};
use uuid::Uuid;

pub const ACCOUNTS: [&str; 2] = ["default", "acct1"];

#[derive(Clone, Debug, Serialize, Deserialize, PartialEq)]
pub enum AmountPick {
	/// fraction (x/65536) of the sender's currently spendable amount, at least 1
	Frac(u16),
	/// everything spendable, with amount_includes_fee
	AllInclFee,
	One,
	/// more than the wallet holds
	Over,
}

#[derive(Clone, Debug, Serialize, Deserialize)]
pub struct SendArgs {
	pub amount: AmountPick,
	pub use_all: bool,
	pub change: u8,
	pub min_conf: u8,
	pub incl_fee: bool,
	pub late_lock: bool,
	pub proof: bool,
	pub ttl: Option<u8>,
	/// name the (active) source account explicitly
	pub name_acct: bool,
}

impl Default for SendArgs {
	fn default() -> SendArgs {
		SendArgs {
			amount: AmountPick::Frac(20000),
			use_all: true,
			change: 1,
			min_conf: 1,
			incl_fee: false,
			late_lock: false,
			proof: false,
			ttl: None,
			name_acct: false,
		}
	}
}

#[derive(Clone, Debug, Serialize, Deserialize)]
pub enum Op {
	/// to: 0 = nobody, k>0 = wallet k-1 (active account); take = bitmask over the mempool
	Mine { to: u16, take: u16 },
	Refresh { w: u16 },
	NodeDown,
	NodeUp,
	/// node answers `after` more calls, then goes down (until NodeUp)
	NodeFlaky { after: u8 },
	SwitchAccount { w: u16, acct: u16 },
	InitSend { w: u16, to: u16, args: SendArgs },
	Lock { s: u16 },
	Deliver { s: u16 },
	Finalize { s: u16 },
	Post { s: u16 },
	Cancel { s: u16, by_sender: bool, by_slate_id: bool },
	IssueInvoice { w: u16, payer: u16, amount: u16 },
	PayInvoice { s: u16, args: SendArgs },
	FinalizeInvoice { s: u16 },
	SelfSend { w: u16, other_acct: bool, args: SendArgs },
	Restart { w: u16 },
	/// sender finalizes with a reply whose partial signature was corrupted in transit (must be refused)
	FinalizeTampered { s: u16 },
	/// a second, different reply to an already finalized slate (the same S1 received into the responder's other
	/// account) is given to the sender's finalize: must be refused
	RefinalizeOtherReply { s: u16 },
	/// wallet w receives two payments (keys k, k+1) from the other wallet; the LATER one is mined first, the earlier
	/// one a block later, so that key paths reach the chain out of allocation order
	OutOfOrderReceives { w: u16 },
	/// wallet w pays the other wallet, which immediately spends the still-unconfirmed output back with
	/// minimum_confirmations = 0; both transactions are posted and mined (two blocks) before anyone refreshes
	ZeroConfRelay { w: u16 },
	/// perform the next legal protocol step of a live slate (lock -> deliver -> finalize -> post)
	Step { s: u16 },
	Scan { w: u16, start: u16, delete_unconfirmed: bool },
	/// time passes: the whole mempool is mined, then 51 + n%6 empty blocks to nobody, then every wallet refreshes
	/// its active account (what the background updater would have done meanwhile). Reaches the ">50 blocks old"
	/// housekeeping of the refresh with transactions still pending.
	LongWait { n: u8 },
}

#[derive(Clone, Debug, PartialEq, Eq)]
pub enum Flow {
	Send,
	Invoice,
}

#[derive(Clone, Debug, PartialEq, Eq, PartialOrd, Ord)]
pub enum Stage {
	/// S1 / I1 exists
	Init,
	/// S2 / I2 exists (counterparty answered)
	Replied,
	/// S3 / I3 exists
	Finalized,
}

#[derive(Clone, Debug)]
pub struct SlateRec {
	pub id: Uuid,
	pub flow: Flow,
	/// wallet that created S1/I1
	pub initiator: usize,
	pub initiator_acct: usize,
	/// the other wallet (may equal initiator for self-sends)
	pub responder: usize,
	pub responder_acct: Option<usize>,
	pub stage: Stage,
	pub s1: Slate,
	pub s2: Option<Slate>,
	pub s3: Option<Slate>,
	pub late_lock: bool,
	/// sender-side reservation done (explicit lock, or implied by late-lock finalize / pay-invoice lock)
	pub locked: bool,
	pub posted: bool,
	pub mined_at: Option<u64>,
	pub cancelled_by: BTreeSet<usize>,
	pub amount_requested: u64,
	pub args: Option<SendArgs>,
	pub proof: bool,
	pub ttl_cutoff: Option<u64>,
	pub tx: Option<Transaction>,
	pub rejected_by_chain: Option<String>,
	/// how often a `Step` on this record failed while the node was reachable (generator density only: `Step`
	/// prefers records that can still make progress; the explicit ops still address every record)
	pub step_failures: u8,
}

impl SlateRec {
	/// wallet index that spends (sender for Send, payer for Invoice)
	pub fn payer(&self) -> usize {
		match self.flow {
			Flow::Send => self.initiator,
			Flow::Invoice => self.responder,
		}
	}
	pub fn payee(&self) -> usize {
		match self.flow {
			Flow::Send => self.responder,
			Flow::Invoice => self.initiator,
		}
	}
	pub fn payer_acct(&self) -> Option<usize> {
		match self.flow {
			Flow::Send => Some(self.initiator_acct),
			Flow::Invoice => self.responder_acct,
		}
	}
	pub fn payee_acct(&self) -> Option<usize> {
		match self.flow {
			Flow::Send => self.responder_acct,
			Flow::Invoice => Some(self.initiator_acct),
		}
	}
	pub fn is_cancelled(&self) -> bool {
		!self.cancelled_by.is_empty()
	}
}

#[derive(Clone, Debug)]
pub struct OpOutcome {
	/// op found its operands and was attempted
	pub effective: bool,
	pub kind: String,
	/// None when not attempted
	pub result: Option<Result<(), String>>,
	pub slate: Option<usize>,
	pub wallet: Option<usize>,
}

impl OpOutcome {
	fn noop(kind: &str) -> OpOutcome {
		OpOutcome {
			effective: false,
			kind: kind.to_string(),
			result: None,
			slate: None,
			wallet: None,
		}
	}
	pub fn ok(&self) -> bool {
		matches!(self.result, Some(Ok(())))
	}
	pub fn err(&self) -> Option<&String> {
		match &self.result {
			Some(Err(e)) => Some(e),
			_ => None,
		}
	}
}

pub struct Sim {
	pub world: World,
	pub slates: Vec<SlateRec>,
	/// active account index per wallet (as chosen by the harness)
	pub active: Vec<usize>,
	/// enforce protocol order (ops out of order degrade to no-ops)
	pub strict: bool,
	/// never mine a transaction that some party cancelled (C04 domain)
	pub never_mine_cancelled: bool,
	pub log: Vec<String>,
	/// commitment -> (wallet, account index) the creating operation addressed
	pub addressed: BTreeMap<Vec<u8>, (usize, usize)>,
	pub node_down: bool,
	/// heights at which each wallet/account last refreshed successfully
	pub last_refresh: BTreeMap<(usize, usize), u64>,
	/// slate excluded from generic op selection (a property's target under study)
	pub frozen: Option<usize>,
}

/// JSON V4 wire round trip, as every real transport performs.
pub fn wire(s: &Slate) -> Result<Slate, String> {
	let v = VersionedSlate::into_version(s.clone(), SlateVersion::V4).map_err(|e| format!("to V4: {}", e))?;
	let js = serde_json::to_string(&v).map_err(|e| e.to_string())?;
	Slate::deserialize_upgrade(&js).map_err(|e| format!("from V4: {}", e))
}

pub fn commit_of(o: &grin_wallet_libwallet::OutputData) -> Option<Vec<u8>> {
	o.commit.as_ref().and_then(|c| grin_util::from_hex(c).ok())
}

impl Sim {
	pub fn new(world: World) -> Sim {
		let n = world.wallets.len();
		Sim {
			world,
			slates: vec![],
			active: vec![0; n],
			strict: true,
			never_mine_cancelled: false,
			log: vec![],
			addressed: BTreeMap::new(),
			node_down: false,
			last_refresh: BTreeMap::new(),
			frozen: None,
		}
	}

	pub fn w(&self, i: usize) -> &Wal {
		&self.world.wallets[i]
	}

	pub fn acct_parent(&self, acct: usize) -> Identifier {
		crate::props::c01::acct_parent(acct as u8)
	}

	fn note(&mut self, s: String) {
		self.log.push(s);
	}

	pub fn history(&self) -> String {
		self.log.join("\n")
	}

	pub fn spendable(&self, w: usize, min_conf: u64) -> u64 {
		self.w(w)
			.owner
			.retrieve_summary_info(self.w(w).m(), false, min_conf)
			.map(|r| r.1.amount_currently_spendable)
			.unwrap_or(0)
	}

	fn output_commits(&self, w: usize) -> BTreeSet<Vec<u8>> {
		snap::view(self.w(w)).outputs.iter().filter_map(commit_of).collect()
	}

	/// record commitments created by an op as addressed to (w, acct)
	fn attribute_new(&mut self, w: usize, acct: usize, before: &BTreeSet<Vec<u8>>) {
		let after = self.output_commits(w);
		for c in after.difference(before) {
			self.addressed.entry(c.clone()).or_insert((w, acct));
		}
	}

	pub fn init_args(&self, w: usize, a: &SendArgs, amount: u64, proof_to: Option<SlatepackAddress>) -> InitTxArgs {
		InitTxArgs {
			src_acct_name: if a.name_acct { Some(ACCOUNTS[self.active[w]].to_string()) } else { None },
			amount,
			amount_includes_fee: if a.incl_fee || a.amount == AmountPick::AllInclFee { Some(true) } else { None },
			minimum_confirmations: a.min_conf as u64,
			max_outputs: 500,
			num_change_outputs: a.change as u32,
			selection_strategy_is_use_all: a.use_all,
			ttl_blocks: a.ttl.map(|t| t as u64),
			payment_proof_recipient_address: proof_to,
			late_lock: Some(a.late_lock),
			estimate_only: Some(false),
			..Default::default()
		}
	}

	pub fn pick_amount(&self, w: usize, a: &SendArgs) -> u64 {
		let sp = self.spendable(w, a.min_conf as u64);
		match a.amount {
			AmountPick::Frac(f) => std::cmp::max(1, ((sp as u128 * f as u128) >> 16) as u64),
			AmountPick::AllInclFee => sp,
			AmountPick::One => 1,
			AmountPick::Over => sp.saturating_add(1_000_000_000),
		}
	}

	pub fn refresh(&mut self, w: usize) -> Result<bool, String> {
		let r = self
			.w(w)
			.owner
			.retrieve_summary_info(self.w(w).m(), true, 1)
			.map(|r| r.0)
			.map_err(|e| e.to_string());
		if let Ok(true) = r {
			let h = self.world.height();
			self.last_refresh.insert((w, self.active[w]), h);
		}
		r
	}

	fn mark_mined(&mut self, txs: &[Transaction], height: u64) {
		for t in txs {
			let ex: Vec<Commitment> = t.kernels().iter().map(|k| k.excess).collect();
			for s in self.slates.iter_mut() {
				if let Some(tx) = &s.tx {
					if tx.kernels().iter().any(|k| ex.contains(&k.excess)) {
						s.mined_at = Some(height);
					}
				}
			}
		}
	}

	/// Mine a block with a conflict-free subset of the mempool selected by `take`.
	pub fn mine(&mut self, to: Option<usize>, take: u16) -> Result<usize, String> {
		let pool = self.world.node.take_mempool();
		let mut chosen: Vec<Transaction> = vec![];
		let mut keep: Vec<Transaction> = vec![];
		let mut used_inputs: BTreeSet<Vec<u8>> = BTreeSet::new();
		for (i, tx) in pool.into_iter().enumerate() {
			let want = i >= 16 || (take >> i) & 1 == 1;
			let srec = self
				.slates
				.iter()
				.position(|s| s.tx.as_ref().map(|t| t.kernels()[0].excess == tx.kernels()[0].excess).unwrap_or(false));
			if self.never_mine_cancelled {
				if let Some(si) = srec {
					if self.slates[si].is_cancelled() {
						// dropped for good: the domain excludes mining a cancelled transaction
						continue;
					}
				}
			}
			if !want || (srec.is_some() && srec == self.frozen) {
				keep.push(tx);
				continue;
			}
			let inputs_v: Vec<grin_core::core::transaction::CommitWrapper> = tx.inputs().into();
			let ins: Vec<Vec<u8>> = inputs_v.iter().map(|i| i.commitment().0.to_vec()).collect::<Vec<_>>();
			let conflict = ins.iter().any(|c| used_inputs.contains(c));
			let valid = if conflict { Err("conflicts with another selected tx".to_string()) } else { self.world.chain.validate_tx(&tx).map_err(|e| format!("{:?}", e)) };
			match valid {
				Ok(()) => {
					for c in ins {
						used_inputs.insert(c);
					}
					chosen.push(tx);
				}
				Err(e) => {
					if let Some(si) = srec {
						self.slates[si].rejected_by_chain = Some(e.clone());
					}
					self.note(format!("   chain rejected posted tx: {}", e));
				}
			}
		}
		self.world.node.with(|s| s.mempool = keep);
		let before = to.map(|w| self.output_commits(w));
		let b = self.world.mine(to, &chosen)?;
		if let (Some(w), Some(bf)) = (to, before) {
			let a = self.active[w];
			self.attribute_new(w, a, &bf);
		}
		let h = b.header.height;
		self.mark_mined(&chosen, h);
		Ok(chosen.len())
	}

	/// (added for C15) Take the transactions `mine` would put into the next block for the same `take` mask
	/// (conflict-free, valid on the head; the rest stays in the mempool) without mining them.
	pub fn select_mempool(&mut self, take: u16) -> Vec<Transaction> {
		let pool = self.world.node.take_mempool();
		let mut chosen: Vec<Transaction> = vec![];
		let mut keep: Vec<Transaction> = vec![];
		let mut used_inputs: BTreeSet<Vec<u8>> = BTreeSet::new();
		for (i, tx) in pool.into_iter().enumerate() {
			let want = i >= 16 || (take >> i) & 1 == 1;
			let srec = self
				.slates
				.iter()
				.position(|s| s.tx.as_ref().map(|t| t.kernels()[0].excess == tx.kernels()[0].excess).unwrap_or(false));
			if self.never_mine_cancelled {
				if let Some(si) = srec {
					if self.slates[si].is_cancelled() {
						continue;
					}
				}
			}
			if !want || (srec.is_some() && srec == self.frozen) {
				keep.push(tx);
				continue;
			}
			let inputs_v: Vec<grin_core::core::transaction::CommitWrapper> = tx.inputs().into();
			let ins: Vec<Vec<u8>> = inputs_v.iter().map(|i| i.commitment().0.to_vec()).collect::<Vec<_>>();
			let conflict = ins.iter().any(|c| used_inputs.contains(c));
			let valid = if conflict { Err("conflicts with another selected tx".to_string()) } else { self.world.chain.validate_tx(&tx).map_err(|e| format!("{:?}", e)) };
			match valid {
				Ok(()) => {
					for c in ins {
						used_inputs.insert(c);
					}
					chosen.push(tx);
				}
				Err(e) => {
					if let Some(si) = srec {
						self.slates[si].rejected_by_chain = Some(e.clone());
					}
					self.note(format!("   chain rejected posted tx: {}", e));
				}
			}
		}
		self.world.node.with(|s| s.mempool = keep);
		chosen
	}

	/// (added for C15) Mine one block on the head holding `txs` with a reward output the caller obtained itself
	/// (e.g. from its own `build_coinbase` calls); the protocol ledger is updated as in `mine`. Returns the height.
	pub fn mine_with_reward(&mut self, txs: Vec<Transaction>, rew: (grin_core::core::Output, grin_core::core::TxKernel)) -> Result<u64, String> {
		let prev = self.world.head_header();
		let b = match self.world.build_block(&prev, &txs, rew).and_then(|b| self.world.process(b.clone()).map(|_| b)) {
			Ok(b) => b,
			Err(e) => {
				// nothing was mined: the transactions go back to the mempool
				self.world.node.with(|s| s.mempool.extend(txs));
				return Err(e);
			}
		};
		let h = b.header.height;
		self.mark_mined(&txs, h);
		Ok(h)
	}

	pub fn slatepack_address(&self, w: usize) -> Result<SlatepackAddress, String> {
		self.w(w)
			.owner
			.get_slatepack_address(self.w(w).m(), 0)
			.map_err(|e| e.to_string())
	}

	// --- protocol steps (usable directly by properties) ------------------------------------

	pub fn init_send(&mut self, w: usize, to: usize, a: &SendArgs) -> Result<usize, String> {
		let amount = self.pick_amount(w, a);
		let proof_to = if a.proof { Some(self.slatepack_address(to)?) } else { None };
		let args = self.init_args(w, a, amount, proof_to);
		let sl = self
			.w(w)
			.owner
			.init_send_tx(self.w(w).m(), args)
			.map_err(|e| e.to_string())?;
		let cutoff = if sl.ttl_cutoff_height == 0 { None } else { Some(sl.ttl_cutoff_height) };
		self.slates.push(SlateRec {
			id: sl.id,
			flow: Flow::Send,
			initiator: w,
			initiator_acct: self.active[w],
			responder: to,
			responder_acct: None,
			stage: Stage::Init,
			s1: sl,
			s2: None,
			s3: None,
			late_lock: a.late_lock,
			locked: false,
			posted: false,
			mined_at: None,
			cancelled_by: BTreeSet::new(),
			amount_requested: amount,
			args: Some(a.clone()),
			proof: a.proof,
			ttl_cutoff: cutoff,
			tx: None,
			rejected_by_chain: None,
			step_failures: 0,
		});
		Ok(self.slates.len() - 1)
	}

	pub fn lock(&mut self, si: usize) -> Result<(), String> {
		let (w, acct, sl) = {
			let s = &self.slates[si];
			match s.flow {
				Flow::Send => (s.initiator, s.initiator_acct, s.s1.clone()),
				Flow::Invoice => (s.responder, s.responder_acct.unwrap_or(0), s.s2.clone().ok_or("no I2 to lock")?),
			}
		};
		let before = self.output_commits(w);
		let r = self
			.w(w)
			.owner
			.tx_lock_outputs(self.w(w).m(), &sl)
			.map_err(|e| e.to_string());
		if r.is_ok() {
			self.slates[si].locked = true;
			self.attribute_new(w, acct, &before);
		}
		r
	}

	pub fn deliver(&mut self, si: usize) -> Result<(), String> {
		let (to, s1) = {
			let s = &self.slates[si];
			(s.responder, wire(&s.s1)?)
		};
		let acct = self.active[to];
		let before = self.output_commits(to);
		let r = self.w(to).foreign().receive_tx(&s1, None, None).map_err(|e| e.to_string());
		match r {
			Ok(s2) => {
				self.attribute_new(to, acct, &before);
				let s = &mut self.slates[si];
				s.s2 = Some(s2);
				s.responder_acct = Some(acct);
				if s.stage < Stage::Replied {
					s.stage = Stage::Replied;
				}
				Ok(())
			}
			Err(e) => Err(e),
		}
	}

	/// Run `f` with wallet `w` switched to account `acct` (as a user passing `-a acct` would), then switch back.
	pub fn with_account<T>(&mut self, w: usize, acct: usize, f: impl FnOnce(&mut Sim) -> T) -> T {
		let cur = self.active[w];
		if cur != acct {
			let _ = self.switch_account(w, acct);
		}
		let r = f(self);
		if cur != acct {
			let _ = self.switch_account(w, cur);
		}
		r
	}

	pub fn finalize(&mut self, si: usize) -> Result<(), String> {
		let (w, acct) = (self.slates[si].initiator, self.slates[si].initiator_acct);
		self.with_account(w, acct, |s| s.finalize_inner(si))
	}

	/// finalize while `active` (not necessarily the account the send was made from) is the wallet's active account
	pub fn finalize_under(&mut self, si: usize, active: usize) -> Result<(), String> {
		let w = self.slates[si].initiator;
		self.with_account(w, active, |s| s.finalize_inner(si))
	}

	fn finalize_inner(&mut self, si: usize) -> Result<(), String> {
		let (w, acct, s2, late) = {
			let s = &self.slates[si];
			(s.initiator, s.initiator_acct, wire(s.s2.as_ref().ok_or("no S2")?)?, s.late_lock)
		};
		let before = self.output_commits(w);
		let r = self.w(w).owner.finalize_tx(self.w(w).m(), &s2).map_err(|e| {
			crate::rt::dbg(&format!("finalize_tx error detail: {:?} :: late={} args={:?} init_acct={} active={} selfsend={} resp_acct={:?}", e, late, self.slates[si].args, acct, self.active[w], self.slates[si].initiator == self.slates[si].responder, self.slates[si].responder_acct));
			if format!("{:?}", e).contains("KernelSumMismatch") {
				crate::rt::dbg(&format!("HISTORY:\n{}", self.history()));
			}
			e.to_string()
		});
		match r {
			Ok(s3) => {
				if late {
					// late lock reserves inside finalize, from whatever account is active then
					let a = self.active[w];
					let _ = acct;
					self.attribute_new(w, a, &before);
					self.slates[si].locked = true;
				}
				let s = &mut self.slates[si];
				s.tx = s3.tx.clone();
				s.s3 = Some(s3);
				s.stage = Stage::Finalized;
				Ok(())
			}
			Err(e) => {
				if late {
					// a failed late finalize may have reserved already
					let a = self.active[w];
					self.attribute_new(w, a, &before);
				}
				Err(e)
			}
		}
	}

	pub fn post(&mut self, si: usize) -> Result<(), String> {
		let (w, tx) = {
			let s = &self.slates[si];
			let w = match s.flow {
				Flow::Send => s.initiator,
				Flow::Invoice => s.initiator,
			};
			let _ = s.tx.as_ref().ok_or("no final tx")?;
			(w, s.s3.clone().ok_or("no final slate")?)
		};
		let r = self
			.w(w)
			.owner
			.post_tx(self.w(w).m(), &tx, true)
			.map_err(|e| e.to_string());
		if r.is_ok() {
			self.slates[si].posted = true;
		}
		r
	}

	pub fn cancel(&mut self, w: usize, si: usize, by_slate_id: bool) -> Result<(), String> {
		let acct = {
			let s = &self.slates[si];
			if w == s.payer() { s.payer_acct() } else { s.payee_acct() }
		};
		match acct {
			Some(a) => self.with_account(w, a, |s| s.cancel_inner(w, si, by_slate_id)),
			None => self.cancel_inner(w, si, by_slate_id),
		}
	}

	fn cancel_inner(&mut self, w: usize, si: usize, by_slate_id: bool) -> Result<(), String> {
		let id = self.slates[si].id;
		let tx_id = if by_slate_id {
			None
		} else {
			// log id of this slate's entry in the active account
			let parent = self.w(w).active_parent();
			let v = snap::view(self.w(w));
			let e = v.txs.iter().find(|t| t.tx_slate_id == Some(id) && t.parent_key_id == parent);
			match e {
				Some(t) => Some(t.id),
				None => return Err("harness: no log entry for this slate in the active account".into()),
			}
		};
		let r = self
			.w(w)
			.owner
			.cancel_tx(self.w(w).m(), tx_id, if by_slate_id { Some(id) } else { None })
			.map_err(|e| e.to_string());
		if r.is_ok() {
			self.slates[si].cancelled_by.insert(w);
		}
		r
	}

	pub fn issue_invoice(&mut self, w: usize, payer: usize, amount: u64) -> Result<usize, String> {
		let acct = self.active[w];
		let before = self.output_commits(w);
		let sl = self
			.w(w)
			.owner
			.issue_invoice_tx(
				self.w(w).m(),
				IssueInvoiceTxArgs {
					amount,
					..Default::default()
				},
			)
			.map_err(|e| e.to_string())?;
		self.attribute_new(w, acct, &before);
		self.slates.push(SlateRec {
			id: sl.id,
			flow: Flow::Invoice,
			initiator: w,
			initiator_acct: acct,
			responder: payer,
			responder_acct: None,
			stage: Stage::Init,
			s1: sl,
			s2: None,
			s3: None,
			late_lock: false,
			locked: false,
			posted: false,
			mined_at: None,
			cancelled_by: BTreeSet::new(),
			amount_requested: amount,
			args: None,
			proof: false,
			ttl_cutoff: None,
			tx: None,
			rejected_by_chain: None,
			step_failures: 0,
		});
		Ok(self.slates.len() - 1)
	}

	pub fn pay_invoice(&mut self, si: usize, a: &SendArgs) -> Result<(), String> {
		let (payer, i1, amount) = {
			let s = &self.slates[si];
			(s.responder, wire(&s.s1)?, s.amount_requested)
		};
		let mut args = self.init_args(payer, a, amount, None);
		args.amount_includes_fee = None;
		args.late_lock = Some(false);
		let acct = self.active[payer];
		let r = self
			.w(payer)
			.owner
			.process_invoice_tx(self.w(payer).m(), &i1, args)
			.map_err(|e| e.to_string());
		match r {
			Ok(i2) => {
				let s = &mut self.slates[si];
				s.s2 = Some(i2);
				s.responder_acct = Some(acct);
				s.args = Some(a.clone());
				if s.stage < Stage::Replied {
					s.stage = Stage::Replied;
				}
				Ok(())
			}
			Err(e) => Err(e),
		}
	}

	pub fn finalize_invoice(&mut self, si: usize) -> Result<(), String> {
		let (w, acct) = (self.slates[si].initiator, self.slates[si].initiator_acct);
		self.with_account(w, acct, |s| s.finalize_invoice_inner(si))
	}

	fn finalize_invoice_inner(&mut self, si: usize) -> Result<(), String> {
		let (w, i2) = {
			let s = &self.slates[si];
			(s.initiator, wire(s.s2.as_ref().ok_or("no I2")?)?)
		};
		// payee finalises through the foreign API, as in the real flow
		let r = self.w(w).foreign().finalize_tx(&i2, false).map_err(|e| e.to_string());
		match r {
			Ok(i3) => {
				let s = &mut self.slates[si];
				s.tx = i3.tx.clone();
				s.s3 = Some(i3);
				s.stage = Stage::Finalized;
				Ok(())
			}
			Err(e) => Err(e),
		}
	}

	pub fn switch_account(&mut self, w: usize, acct: usize) -> Result<(), String> {
		self.w(w).set_account(ACCOUNTS[acct])?;
		self.active[w] = acct;
		Ok(())
	}

	pub fn restart(&mut self, w: usize) -> Result<(), String> {
		self.world.restart_wallet(w)
	}

	pub fn set_node_down(&mut self, d: bool) {
		self.node_down = d;
		self.world.node.set_down(d);
	}

	// --- generic op interpreter ------------------------------------------------------------

	fn pick_slate(&self, s: u16, pred: impl Fn(&SlateRec) -> bool) -> Option<usize> {
		let c: Vec<usize> = (0..self.slates.len())
			.filter(|i| Some(*i) != self.frozen && pred(&self.slates[*i]))
			.collect();
		if c.is_empty() {
			None
		} else {
			Some(c[idx(s, c.len())])
		}
	}

	pub fn apply(&mut self, op: &Op) -> OpOutcome {
		let nw = self.world.wallets.len();
		let strict = self.strict;
		let mut out = match op {
			Op::Mine { to, take } => {
				let to = if *to == 0 { None } else { Some(idx(to.wrapping_sub(1), nw)) };
				let r = if self.node_down { Err("node down: block production unaffected, but kept simple: skip".to_string()) } else { self.mine(to, *take).map(|_| ()) };
				if self.node_down {
					OpOutcome::noop("mine")
				} else {
					OpOutcome {
						effective: true,
						kind: "mine".into(),
						result: Some(r),
						slate: None,
						wallet: to,
					}
				}
			}
			Op::Refresh { w } => {
				let w = idx(*w, nw);
				let r = self.refresh(w);
				OpOutcome {
					effective: true,
					kind: if let Ok(true) = r { "refresh:ok".into() } else { "refresh:unavailable".into() },
					result: Some(r.map(|_| ())),
					slate: None,
					wallet: Some(w),
				}
			}
			Op::NodeDown => {
				self.set_node_down(true);
				OpOutcome {
					effective: true,
					kind: "node-down".into(),
					result: Some(Ok(())),
					slate: None,
					wallet: None,
				}
			}
			Op::NodeFlaky { after } => {
				let a = *after as u64;
				self.world.node.with(|s| {
					s.down = false;
					s.down_after = Some(a);
				});
				self.node_down = false;
				OpOutcome {
					effective: true,
					kind: "node-flaky".into(),
					result: Some(Ok(())),
					slate: None,
					wallet: None,
				}
			}
			Op::NodeUp => {
				self.set_node_down(false);
				OpOutcome {
					effective: true,
					kind: "node-up".into(),
					result: Some(Ok(())),
					slate: None,
					wallet: None,
				}
			}
			Op::SwitchAccount { w, acct } => {
				let w = idx(*w, nw);
				let a = idx(*acct, ACCOUNTS.len());
				let r = self.switch_account(w, a);
				OpOutcome {
					effective: true,
					kind: "switch-account".into(),
					result: Some(r),
					slate: None,
					wallet: Some(w),
				}
			}
			Op::InitSend { w, to, args } => {
				let w = idx(*w, nw);
				let mut to = idx(*to, nw);
				if to == w {
					to = (w + 1) % nw;
				}
				let r = self.init_send(w, to, args);
				OpOutcome {
					effective: true,
					kind: if args.late_lock { "init-send-late".into() } else { "init-send".into() },
					slate: r.as_ref().ok().cloned(),
					result: Some(r.map(|_| ())),
					wallet: Some(w),
				}
			}
			Op::Lock { s } => {
				match self.pick_slate(*s, |r| {
					(r.flow == Flow::Send && !r.late_lock && (!strict || (!r.locked && r.stage < Stage::Finalized && !r.is_cancelled())))
						// any order: the reserve step of an invoice payer may be delivered again at any later time (the
						// payer's private context is never deleted, so the call reaches the reservation code)
						|| (!strict && r.flow == Flow::Invoice && r.s2.is_some())
				}) {
					None => OpOutcome::noop("lock"),
					Some(si) => {
						let payer = self.slates[si].payer();
						let rep = self.slates[si].locked && !self.slates[si].cancelled_by.contains(&payer);
						let r = self.lock(si);
						OpOutcome {
							effective: true,
							kind: if rep { "lock-repeat".into() } else { "lock".into() },
							result: Some(r),
							slate: Some(si),
							wallet: Some(payer),
						}
					}
				}
			}
			Op::Deliver { s } => {
				match self.pick_slate(*s, |r| {
					r.flow == Flow::Send && r.initiator != r.responder && (!strict || (r.stage == Stage::Init && !r.is_cancelled()))
				}) {
					None => OpOutcome::noop("deliver"),
					Some(si) => {
						// a repeat = same slate delivered again to the same account of a recipient that has not cancelled it
						let rep = self.slates[si].stage >= Stage::Replied
							&& !self.slates[si].cancelled_by.contains(&self.slates[si].responder)
							&& self.slates[si].responder_acct == Some(self.active[self.slates[si].responder]);
						let r = self.deliver(si);
						OpOutcome {
							effective: true,
							kind: if rep { "deliver-repeat".into() } else { "deliver".into() },
							result: Some(r),
							slate: Some(si),
							wallet: Some(self.slates[si].responder),
						}
					}
				}
			}
			Op::Finalize { s } => {
				match self.pick_slate(*s, |r| {
					r.flow == Flow::Send && r.s2.is_some() && (!strict || (r.stage == Stage::Replied && (r.locked || r.late_lock) && !r.is_cancelled()))
				}) {
					None => OpOutcome::noop("finalize"),
					Some(si) => {
						let rep = self.slates[si].stage >= Stage::Finalized;
						let r = self.finalize(si);
						OpOutcome {
							effective: true,
							kind: if rep { "finalize-repeat".into() } else { "finalize".into() },
							result: Some(r),
							slate: Some(si),
							wallet: Some(self.slates[si].initiator),
						}
					}
				}
			}
			Op::Post { s } => {
				match self.pick_slate(*s, |r| r.tx.is_some() && (!strict || (!r.posted && !r.is_cancelled()))) {
					None => OpOutcome::noop("post"),
					Some(si) => {
						let r = self.post(si);
						OpOutcome {
							effective: true,
							kind: "post".into(),
							result: Some(r),
							slate: Some(si),
							wallet: Some(self.slates[si].initiator),
						}
					}
				}
			}
			Op::Cancel { s, by_sender, by_slate_id } => {
				match self.pick_slate(*s, |r| !strict || (r.mined_at.is_none() && !r.posted)) {
					None => OpOutcome::noop("cancel"),
					Some(si) => {
						let w = if *by_sender { self.slates[si].payer() } else { self.slates[si].payee() };
						let r = self.cancel(w, si, *by_slate_id);
						OpOutcome {
							effective: true,
							kind: "cancel".into(),
							result: Some(r),
							slate: Some(si),
							wallet: Some(w),
						}
					}
				}
			}
			Op::IssueInvoice { w, payer, amount } => {
				let w = idx(*w, nw);
				let mut p = idx(*payer, nw);
				if p == w {
					p = (w + 1) % nw;
				}
				let sp = self.spendable(p, 1);
				let amt = std::cmp::max(1, ((sp as u128 * *amount as u128) >> 17) as u64);
				let r = self.issue_invoice(w, p, amt);
				OpOutcome {
					effective: true,
					kind: "issue-invoice".into(),
					slate: r.as_ref().ok().cloned(),
					result: Some(r.map(|_| ())),
					wallet: Some(w),
				}
			}
			Op::PayInvoice { s, args } => {
				match self.pick_slate(*s, |r| r.flow == Flow::Invoice && (!strict || (r.stage == Stage::Init && !r.is_cancelled()))) {
					None => OpOutcome::noop("pay-invoice"),
					Some(si) => {
						let mut r = self.pay_invoice(si, args);
						if r.is_ok() {
							r = self.lock(si).map_err(|e| format!("lock after pay: {}", e));
						}
						OpOutcome {
							effective: true,
							kind: "pay-invoice".into(),
							result: Some(r),
							slate: Some(si),
							wallet: Some(self.slates[si].responder),
						}
					}
				}
			}
			Op::FinalizeInvoice { s } => {
				match self.pick_slate(*s, |r| r.flow == Flow::Invoice && r.s2.is_some() && (!strict || (r.stage == Stage::Replied && r.locked && !r.is_cancelled()))) {
					None => OpOutcome::noop("finalize-invoice"),
					Some(si) => {
						let r = self.finalize_invoice(si);
						OpOutcome {
							effective: true,
							kind: "finalize-invoice".into(),
							result: Some(r),
							slate: Some(si),
							wallet: Some(self.slates[si].initiator),
						}
					}
				}
			}
			Op::SelfSend { w, other_acct, args } => {
				let w = idx(*w, nw);
				let r = self.self_send(w, *other_acct, args);
				OpOutcome {
					effective: true,
					kind: "self-send".into(),
					slate: r.as_ref().ok().cloned(),
					result: Some(r.map(|_| ())),
					wallet: Some(w),
				}
			}
			Op::Step { s } => {
				let fresh = self.pick_slate(*s, |r| !r.is_cancelled() && !r.posted && r.step_failures < 2);
				match fresh.or_else(|| self.pick_slate(*s, |r| !r.is_cancelled() && !r.posted)) {
					None => {
						// nothing in flight: start a default send from a wallet chosen by `s`
						let w = idx(*s, nw);
						let to = (w + 1) % nw;
						let r = self.init_send(w, to, &SendArgs { amount: AmountPick::Frac(s.wrapping_mul(31)), ..SendArgs::default() });
						OpOutcome {
							effective: true,
							kind: "init-send".into(),
							slate: r.as_ref().ok().cloned(),
							result: Some(r.map(|_| ())),
							wallet: Some(w),
						}
					}
					Some(si) => {
						let (flow, stage, locked, late, selfsend) = {
							let r = &self.slates[si];
							(r.flow.clone(), r.stage.clone(), r.locked, r.late_lock, r.initiator == r.responder)
						};
						let (kind, r) = match (flow, stage.clone()) {
							(_, Stage::Finalized) => ("post", self.post(si)),
							(Flow::Send, _) if !locked && !late => ("lock", self.lock(si)),
							(Flow::Send, Stage::Init) if !selfsend => ("deliver", self.deliver(si)),
							(Flow::Send, Stage::Replied) => ("finalize", self.finalize(si)),
							(Flow::Invoice, Stage::Init) => {
								let a = SendArgs::default();
								let mut r = self.pay_invoice(si, &a);
								if r.is_ok() {
									r = self.lock(si).map_err(|e| format!("lock after pay: {}", e));
								}
								("pay-invoice", r)
							}
							// the payer hands I2 back only after reserving its inputs (pay = process + lock)
							(Flow::Invoice, Stage::Replied) if !locked => ("lock", self.lock(si)),
							(Flow::Invoice, Stage::Replied) => ("finalize-invoice", self.finalize_invoice(si)),
							_ => ("step-none", Ok(())),
						};
						if r.is_err() && !self.node_down && self.world.node.with(|n| !n.down && n.down_after.is_none()) {
							self.slates[si].step_failures = self.slates[si].step_failures.saturating_add(1);
						}
						let wallet = match kind {
							"deliver" => self.slates[si].responder,
							"pay-invoice" => self.slates[si].responder,
							"lock" => self.slates[si].payer(),
							_ => self.slates[si].initiator,
						};
						OpOutcome {
							effective: true,
							kind: kind.into(),
							result: Some(r),
							slate: Some(si),
							wallet: Some(wallet),
						}
					}
				}
			}
			Op::FinalizeTampered { s } => {
				match self.pick_slate(*s, |r| r.flow == Flow::Send && r.s2.is_some() && r.initiator != r.responder && r.stage == Stage::Replied && !r.is_cancelled() && (r.locked || r.late_lock)) {
					None => OpOutcome::noop("finalize-tampered"),
					Some(si) => {
						let r = self.finalize_tampered(si);
						OpOutcome {
							effective: true,
							kind: "finalize-tampered".into(),
							result: Some(r),
							slate: Some(si),
							wallet: Some(self.slates[si].initiator),
						}
					}
				}
			}
			Op::RefinalizeOtherReply { s } => {
				match self.pick_slate(*s, |r| r.initiator != r.responder && r.stage == Stage::Finalized && !r.is_cancelled() && r.mined_at.is_none()) {
					None => OpOutcome::noop("refinalize-other-reply"),
					Some(si) => {
						let r = self.refinalize_other_reply(si);
						OpOutcome {
							effective: true,
							kind: "refinalize-other-reply".into(),
							result: Some(r),
							slate: Some(si),
							wallet: Some(self.slates[si].initiator),
						}
					}
				}
			}
			Op::OutOfOrderReceives { w } => {
				let w = idx(*w, nw);
				let r = self.out_of_order_receives(w);
				OpOutcome {
					effective: true,
					kind: "out-of-order-receives".into(),
					result: Some(r),
					slate: None,
					wallet: Some(w),
				}
			}
			Op::ZeroConfRelay { w } => {
				let w = idx(*w, nw);
				let r = self.zero_conf_relay(w);
				OpOutcome {
					effective: true,
					kind: "zero-conf-relay".into(),
					result: Some(r),
					slate: None,
					wallet: Some(w),
				}
			}
			Op::LongWait { n } => {
				if self.node_down {
					OpOutcome::noop("long-wait")
				} else {
					let mut r: Result<(), String> = Ok(());
					for k in 0..(51 + (*n as usize % 6)) {
						if let Err(e) = self.mine(None, if k == 0 { 0xffff } else { 0 }) {
							r = Err(e);
							break;
						}
					}
					if r.is_ok() {
						for w in 0..nw {
							// a flaky node may make this refresh report "not updated": that is an outcome, not an error
							let _ = self.refresh(w);
						}
					}
					OpOutcome {
						effective: true,
						kind: "long-wait".into(),
						result: Some(r),
						slate: None,
						wallet: None,
					}
				}
			}
			Op::Restart { w } => {
				let w = idx(*w, nw);
				let r = self.restart(w);
				OpOutcome {
					effective: true,
					kind: "restart".into(),
					result: Some(r),
					slate: None,
					wallet: Some(w),
				}
			}
			Op::Scan { w, start, delete_unconfirmed } => {
				let w = idx(*w, nw);
				let h = self.world.height();
				let st = if *start == 0 { None } else { Some(idx(*start, (h + 2) as usize) as u64) };
				let r = self
					.w(w)
					.owner
					.scan(self.w(w).m(), st, *delete_unconfirmed)
					.map_err(|e| e.to_string());
				OpOutcome {
					effective: true,
					kind: "scan".into(),
					result: Some(r),
					slate: None,
					wallet: Some(w),
				}
			}
		};
		if out.kind.is_empty() {
			out.kind = "?".into();
		}
		let line = format!(
			"{:?} -> {}{}",
			op,
			if out.effective { "" } else { "(no-op) " },
			match &out.result {
				Some(Ok(())) => "ok".to_string(),
				Some(Err(e)) => format!("ERR {}", e),
				None => "-".to_string(),
			}
		);
		if out.err().is_some() {
			crate::rt::dbg(&line);
		}
		self.note(line);
		out
	}

	/// Self-send: init + lock in the active account, receive in the same wallet (same or other account),
	/// finalize. Leaves the slate finalized, not posted.
	pub fn self_send(&mut self, w: usize, other_acct: bool, a: &SendArgs) -> Result<usize, String> {
		let mut a = a.clone();
		a.late_lock = false;
		a.proof = false;
		let si = self.init_send(w, w, &a)?;
		self.lock(si)?;
		let src = self.active[w];
		let dst = if other_acct { (src + 1) % ACCOUNTS.len() } else { src };
		// the receiving side of a self-send runs with the destination account active
		if dst != src {
			self.switch_account(w, dst)?;
		}
		let s1 = wire(&self.slates[si].s1)?;
		let before = self.output_commits(w);
		let r = self.w(w).foreign().receive_tx(&s1, None, None).map_err(|e| e.to_string());
		let r = match r {
			Ok(s2) => {
				self.attribute_new(w, dst, &before);
				self.slates[si].s2 = Some(s2);
				self.slates[si].responder_acct = Some(dst);
				self.slates[si].stage = Stage::Replied;
				Ok(())
			}
			Err(e) => Err(e),
		};
		if dst != src {
			self.switch_account(w, src)?;
		}
		r?;
		self.finalize(si)?;
		Ok(si)
	}

	/// Finalize with the honest reply after one bit of the counterparty's partial signature was flipped.
	/// Returns Ok(()) if the wallet REFUSED it (the expected outcome), Err if it accepted or something else failed.
	pub fn finalize_tampered(&mut self, si: usize) -> Result<(), String> {
		let (w, acct) = (self.slates[si].initiator, self.slates[si].initiator_acct);
		let mut s2 = wire(self.slates[si].s2.as_ref().ok_or("no S2")?)?;
		let late = self.slates[si].late_lock;
		let proof_sig = s2.payment_proof.as_ref().and_then(|p| p.receiver_signature.clone());
		match (late, proof_sig) {
			(true, Some(sig)) => {
				// a late-locked send checks the transaction before it reserves anything; the payment-proof signature is
				// verified after the reservation: damage that one, so that the refusal comes as late as it can
				let mut raw = sig.to_bytes();
				raw[40] ^= 0x10;
				let bad = ed25519_dalek::Signature::from_bytes(&raw).map_err(|e| format!("{:?}", e))?;
				if let Some(p) = s2.payment_proof.as_mut() {
					p.receiver_signature = Some(bad);
				}
			}
			_ => {
				let ri = s2.participant_data.iter().position(|p| p.part_sig.is_some()).ok_or("reply without partial signature")?;
				let sig = s2.participant_data[ri].part_sig.unwrap();
				let mut raw = [0u8; 64];
				raw.copy_from_slice(sig.as_ref());
				raw[40] ^= 0x10;
				s2.participant_data[ri].part_sig = Some(grin_util::secp::Signature::from_raw_data(&raw).map_err(|e| format!("{:?}", e))?);
			}
		}
		let before = self.output_commits(w);
		let r = self.with_account(w, acct, |s| s.w(w).owner.finalize_tx(s.w(w).m(), &s2).map(|_| ()).map_err(|e| e.to_string()));
		if late {
			// a refused late-locked finalize may already have reserved (known finding C07): keep attribution right
			let a = self.active[w];
			self.attribute_new(w, a, &before);
			let v = snap::view(self.w(w));
			let id = self.slates[si].id;
			if v.txs.iter().any(|t| t.tx_slate_id == Some(id) && t.tx_type == TxLogEntryType::TxSent) {
				self.slates[si].locked = true;
			}
		}
		match r {
			Err(_) => Ok(()),
			Ok(()) => Err("tampered reply was accepted".into()),
		}
	}

	/// See Op::RefinalizeOtherReply. Ok(()) = refused (expected); Err("...accepted") otherwise.
	pub fn refinalize_other_reply(&mut self, si: usize) -> Result<(), String> {
		if self.slates[si].flow == Flow::Invoice {
			return self.refinalize_other_invoice_reply(si);
		}
		let (w, acct, to) = (self.slates[si].initiator, self.slates[si].initiator_acct, self.slates[si].responder);
		let s1 = wire(&self.slates[si].s1)?;
		let first_acct = self.slates[si].responder_acct.unwrap_or(0);
		let other_acct = (first_acct + 1) % ACCOUNTS.len();
		let before = self.output_commits(to);
		let s2b = self.with_account(to, other_acct, |s| s.w(to).foreign().receive_tx(&s1, None, None).map_err(|e| e.to_string()));
		let s2b = match s2b {
			Ok(s) => s,
			// e.g. already received into that account too, or expired: nothing to try
			Err(e) => return Err(format!("no second reply available: {}", e)),
		};
		self.attribute_new(to, other_acct, &before);
		let s2b = wire(&s2b)?;
		let r = self.with_account(w, acct, |s| s.w(w).owner.finalize_tx(s.w(w).m(), &s2b).map(|_| ()).map_err(|e| e.to_string()));
		match r {
			Err(_) => Ok(()),
			Ok(()) => Err("a finalized slate was finalized again with a different reply: accepted".into()),
		}
	}

	/// Invoice variant of Op::RefinalizeOtherReply: a second, different I2 (the payer's other account processes the same
	/// invoice; an uncooperative payer does not reserve anything for it) is given to the issuer, who has already
	/// finalized the first: must be refused.
	fn refinalize_other_invoice_reply(&mut self, si: usize) -> Result<(), String> {
		let (issuer, issuer_acct, payer, amount) = (self.slates[si].initiator, self.slates[si].initiator_acct, self.slates[si].responder, self.slates[si].amount_requested);
		let i1 = wire(&self.slates[si].s1)?;
		let first_acct = self.slates[si].responder_acct.unwrap_or(0);
		let other_acct = (first_acct + 1) % ACCOUNTS.len();
		let mut args = self.init_args(payer, &SendArgs::default(), amount, None);
		args.src_acct_name = None;
		args.amount_includes_fee = None;
		args.late_lock = Some(false);
		let i2b = self.with_account(payer, other_acct, |s| s.w(payer).owner.process_invoice_tx(s.w(payer).m(), &i1, args).map_err(|e| e.to_string()));
		let i2b = match i2b {
			Ok(s) => s,
			Err(e) => return Err(format!("no second reply available: {}", e)),
		};
		let i2b = wire(&i2b)?;
		let r = self.with_account(issuer, issuer_acct, |s| s.w(issuer).foreign().finalize_tx(&i2b, false).map(|_| ()).map_err(|e| e.to_string()));
		crate::rt::dbg(&format!("second reply to a finalized invoice -> {:?}", r));
		match r {
			Err(_) => Ok(()),
			Ok(()) => Err("a finalized invoice was finalized again with a different reply: accepted".into()),
		}
	}

	/// See Op::OutOfOrderReceives.
	pub fn out_of_order_receives(&mut self, w: usize) -> Result<(), String> {
		if self.node_down {
			return Err("node down".into());
		}
		let from = (w + 1) % self.world.wallets.len();
		let mk = |s: &mut Sim, f: u16| -> Result<usize, String> {
			let a = SendArgs { amount: AmountPick::Frac(f), use_all: false, ..SendArgs::default() };
			let si = s.init_send(from, w, &a)?;
			s.lock(si)?;
			s.deliver(si)?;
			s.finalize(si)?;
			Ok(si)
		};
		let a = mk(self, 2500)?;
		let b = mk(self, 3500)?;
		// whatever else sits in the pool stays there: mine exactly b, then exactly a
		let keep = self.world.node.take_mempool();
		self.post(b)?;
		self.mine(None, 0xffff)?;
		self.post(a)?;
		self.mine(None, 0xffff)?;
		self.world.node.with(|st| st.mempool.extend(keep));
		if self.slates[a].mined_at.is_none() || self.slates[b].mined_at.is_none() {
			return Err("payments were not mined".into());
		}
		Ok(())
	}

	/// See Op::ZeroConfRelay.
	pub fn zero_conf_relay(&mut self, w: usize) -> Result<(), String> {
		if self.node_down {
			return Err("node down".into());
		}
		let other = (w + 1) % self.world.wallets.len();
		// the relay spends with minimum_confirmations = 0 and must only pick up the output it creates itself:
		// skip when the relaying account already holds other unconfirmed outputs (their parents may never be mined)
		{
			let parent = self.w(other).active_parent();
			let v = snap::view(self.w(other));
			if v.outputs.iter().any(|o| o.root_key_id == parent && o.status == OutputStatus::Unconfirmed && !o.is_coinbase) {
				return Err("precondition: relaying account holds unconfirmed outputs".into());
			}
		}
		let a1 = SendArgs { amount: AmountPick::Frac(9000), use_all: false, ..SendArgs::default() };
		let s1 = self.init_send(w, other, &a1)?;
		self.lock(s1)?;
		self.deliver(s1)?;
		self.finalize(s1)?;
		self.post(s1)?;
		// the recipient spends the unconfirmed output straight away
		let a2 = SendArgs { amount: AmountPick::AllInclFee, use_all: true, min_conf: 0, ..SendArgs::default() };
		let s2 = self.init_send(other, w, &a2)?;
		self.lock(s2)?;
		self.deliver(s2)?;
		self.finalize(s2)?;
		// first block: the first payment (and whatever else is valid in the pool); second block: the spend
		self.mine(None, 0xffff)?;
		self.post(s2)?;
		self.mine(None, 0xffff)?;
		if self.slates[s1].mined_at.is_none() || self.slates[s2].mined_at.is_none() {
			return Err("relay transactions were not mined".into());
		}
		Ok(())
	}

	pub fn views(&self) -> Vec<View> {
		(0..self.world.wallets.len()).map(|i| snap::view(self.w(i))).collect()
	}
}

/// Entries of `v` for slate `id` with the given type.
pub fn entries_for<'a>(v: &'a View, id: &Uuid, ty: TxLogEntryType) -> Vec<&'a grin_wallet_libwallet::TxLogEntry> {
	v.txs.iter().filter(|t| t.tx_slate_id == Some(*id) && t.tx_type == ty).collect()
}

pub fn locked_for<'a>(v: &'a View, parent: &Identifier, log_id: u32) -> Vec<&'a grin_wallet_libwallet::OutputData> {
	v.outputs
		.iter()
		.filter(|o| &o.root_key_id == parent && o.tx_log_entry == Some(log_id) && o.status == OutputStatus::Locked)
		.collect()
}


// ---------------------------------------------------------------------------------------------
// generators

use proptest::prelude::*;

pub fn send_args_strategy(allow_min_conf0: bool, allow_late: bool, allow_proof: bool, allow_ttl: bool) -> BoxedStrategy<SendArgs> {
	(
		prop_oneof![8 => any::<u16>().prop_map(AmountPick::Frac), 1 => Just(AmountPick::AllInclFee), 1 => Just(AmountPick::One), 1 => Just(AmountPick::Over)],
		any::<bool>(),
		prop_oneof![1 => Just(0u8), 5 => Just(1u8), 2 => Just(2u8), 1 => Just(3u8), 1 => Just(4u8)],
		if allow_min_conf0 { prop_oneof![1 => Just(0u8), 4 => Just(1u8), 2 => Just(2u8), 1 => Just(4u8)].boxed() } else { prop_oneof![4 => Just(1u8), 2 => Just(2u8), 1 => Just(4u8)].boxed() },
		prop::bool::weighted(0.2),
		if allow_late { prop::bool::weighted(0.2).boxed() } else { Just(false).boxed() },
		if allow_proof { prop::bool::weighted(0.25).boxed() } else { Just(false).boxed() },
		if allow_ttl { prop_oneof![3 => Just(None), 1 => (1u8..6).prop_map(Some)].boxed() } else { Just(None).boxed() },
		prop::bool::weighted(0.15),
	)
		.prop_map(|(amount, use_all, change, min_conf, incl_fee, late_lock, proof, ttl, name_acct)| SendArgs {
			amount,
			use_all,
			change,
			min_conf,
			incl_fee,
			late_lock,
			proof,
			ttl,
			name_acct,
		})
		.boxed()
}
