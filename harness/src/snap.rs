//! Projections of a wallet's persistent state, used for "changes nothing", rollback and idempotence oracles.

use crate::rt::h64;
use crate::world::{Backend, Wal};
use grin_keychain::Identifier;
use grin_wallet_libwallet::{OutputData, OutputStatus, TxLogEntry};
use serde_json::{json, Map, Value};
use std::collections::BTreeMap;
use std::path::Path;
use std::sync::atomic::{AtomicU64, Ordering};

static RAW_N: AtomicU64 = AtomicU64::new(0);

/// Complete raw view of the wallet LMDB database: key bytes -> value bytes.
/// Implemented by copying the (idle) data file and opening the copy read-only.
pub fn raw_db(wal: &Wal, scratch: &Path) -> Result<BTreeMap<Vec<u8>, Vec<u8>>, String> {
	raw_db_dir(&wal.data_dir(), scratch)
}

pub fn raw_db_dir(data_dir: &Path, scratch: &Path) -> Result<BTreeMap<Vec<u8>, Vec<u8>>, String> {
	let n = RAW_N.fetch_add(1, Ordering::Relaxed);
	let tmp = scratch.join(format!("rawdb.{}.{}", std::process::id(), n));
	let dst = tmp.join("db/lmdb");
	std::fs::create_dir_all(&dst).map_err(|e| e.to_string())?;
	let src = data_dir.join("db/lmdb");
	std::fs::copy(src.join("data.mdb"), dst.join("data.mdb")).map_err(|e| format!("copy data.mdb: {}", e))?;
	let res = (|| {
		let store = grin_store::Store::new(tmp.join("db").to_str().unwrap(), None, Some("db"), None)
			.map_err(|e| format!("open copy: {:?}", e))?;
		let mut m = BTreeMap::new();
		// an empty prefix cannot be used as an LMDB seek key: walk every one-byte prefix
		for p in 0u16..=255 {
			let it = store
				.iter(&[p as u8], |k, v| Ok((k.to_vec(), v.to_vec())))
				.map_err(|e| format!("iter: {:?}", e))?;
			for (k, v) in it {
				m.insert(k, v);
			}
		}
		if m.is_empty() {
			return Err("raw db view is empty (a wallet db always holds the default account record)".to_string());
		}
		Ok(m)
	})();
	let _ = std::fs::remove_dir_all(&tmp);
	res
}

fn val_json(v: &[u8]) -> Value {
	// values written by the wallet are u64-length-prefixed JSON, or raw integers
	if v.len() > 8 {
		let mut l = [0u8; 8];
		l.copy_from_slice(&v[0..8]);
		let n = u64::from_be_bytes(l) as usize;
		if n == v.len() - 8 {
			if let Ok(j) = serde_json::from_slice::<Value>(&v[8..]) {
				return j;
			}
		}
	}
	Value::String(grin_util::ToHex::to_hex(&v.to_vec()))
}

fn key_str(k: &[u8]) -> String {
	let p = k.first().copied().unwrap_or(b'?') as char;
	format!("{}:{}", p, grin_util::ToHex::to_hex(&k[1..].to_vec()))
}

/// Full-state snapshot as JSON: every DB record by key + hashes of stored tx files.
pub fn deep(wal: &Wal, scratch: &Path) -> Result<Value, String> {
	let raw = raw_db(wal, scratch)?;
	let mut db = Map::new();
	for (k, v) in raw.iter() {
		db.insert(key_str(k), val_json(v));
	}
	Ok(json!({"db": db, "files": stored_files(&wal.data_dir())}))
}

pub fn stored_files(data_dir: &Path) -> Value {
	let mut files = Map::new();
	if let Ok(rd) = std::fs::read_dir(data_dir.join("saved_txs")) {
		for e in rd.flatten() {
			let name = e.file_name().to_string_lossy().to_string();
			let body = std::fs::read(e.path()).unwrap_or_default();
			files.insert(name, json!(format!("{}:{:016x}", body.len(), h64(&[&body]))));
		}
	}
	Value::Object(files)
}

/// Keys whose difference between two deep snapshots is reported.
pub fn diff(a: &Value, b: &Value) -> Vec<String> {
	let mut out = vec![];
	for sect in &["db", "files"] {
		let ea = Map::new();
		let ma = a[sect].as_object().unwrap_or(&ea);
		let mb = b[sect].as_object().unwrap_or(&ea);
		for (k, va) in ma {
			match mb.get(k) {
				None => out.push(format!("-{}/{} was {}", sect, k, short(va))),
				Some(vb) if vb != va => out.push(format!("~{}/{} {} -> {}", sect, k, short(va), short(vb))),
				_ => {}
			}
		}
		for (k, vb) in mb {
			if !ma.contains_key(k) {
				out.push(format!("+{}/{} = {}", sect, k, short(vb)));
			}
		}
	}
	out
}

fn short(v: &Value) -> String {
	let mut s = v.to_string();
	if s.len() > 300 {
		s.truncate(300);
		s.push_str("...");
	}
	s
}

/// Diff restricted to records that matter for "no reservation / no state change":
/// ignores key-index bumps ('d'), last scanned block ('l'), init status ('w'),
/// and last confirmed height ('c') when `ignore_meta`.
pub fn diff_filtered(a: &Value, b: &Value, ignore_prefixes: &[char]) -> Vec<String> {
	diff(a, b)
		.into_iter()
		.filter(|d| {
			// format: [+-~]db/<p>:...
			if let Some(i) = d.find("db/") {
				let p = d[i + 3..].chars().next().unwrap_or('?');
				!ignore_prefixes.contains(&p)
			} else {
				true
			}
		})
		.collect()
}

// ---------------------------------------------------------------------------------------------
// typed light-weight view through the public trait

#[derive(Clone, Debug)]
pub struct View {
	pub outputs: Vec<OutputData>,
	pub txs: Vec<TxLogEntry>,
	pub accounts: Vec<(String, Identifier)>,
}

pub fn view_backend(w: &mut Backend) -> View {
	let mut outputs: Vec<OutputData> = w.iter().collect();
	outputs.sort_by(|a, b| (a.key_id.to_bytes().to_vec(), a.mmr_index).cmp(&(b.key_id.to_bytes().to_vec(), b.mmr_index)));
	let mut txs: Vec<TxLogEntry> = w.tx_log_iter().collect();
	txs.sort_by(|a, b| (a.parent_key_id.to_bytes().to_vec(), a.id).cmp(&(b.parent_key_id.to_bytes().to_vec(), b.id)));
	let accounts = w.acct_path_iter().map(|a| (a.label, a.path)).collect();
	View {
		outputs,
		txs,
		accounts,
	}
}

pub fn view(wal: &Wal) -> View {
	wal.with(|w| view_backend(w))
}

impl View {
	pub fn outputs_of(&self, parent: &Identifier) -> Vec<&OutputData> {
		self.outputs.iter().filter(|o| &o.root_key_id == parent).collect()
	}
	pub fn txs_of(&self, parent: &Identifier) -> Vec<&TxLogEntry> {
		self.txs.iter().filter(|t| &t.parent_key_id == parent).collect()
	}
	pub fn sum_status(&self, parent: &Identifier, st: OutputStatus) -> u128 {
		self.outputs_of(parent)
			.iter()
			.filter(|o| o.status == st)
			.map(|o| o.value as u128)
			.sum()
	}
	pub fn outputs_json(&self) -> Value {
		serde_json::to_value(&self.outputs).unwrap_or(Value::Null)
	}
}

pub fn status_name(s: &OutputStatus) -> &'static str {
	match s {
		OutputStatus::Unconfirmed => "Unconfirmed",
		OutputStatus::Unspent => "Unspent",
		OutputStatus::Locked => "Locked",
		OutputStatus::Spent => "Spent",
		OutputStatus::Reverted => "Reverted",
	}
}
