//! Ground truth computed from the chain alone: which unspent outputs belong to a seed.
//! Shares grin_core/grin_keychain with the wallet but none of the wallet's own code.

use grin_chain::Chain;
use grin_core::global;
use grin_core::libtx::proof::{self, ProofBuilder};
use grin_keychain::{mnemonic, ExtKeychain, Identifier, Keychain};
use grin_util::secp::pedersen::Commitment;
use std::collections::BTreeMap;

#[derive(Clone, Debug)]
pub struct Owned {
	pub commit: Commitment,
	pub value: u64,
	pub key_id: Identifier,
	pub parent: Identifier,
	pub height: u64,
	pub is_coinbase: bool,
	pub mmr_pos: u64,
}

impl Owned {
	pub fn lock_height(&self) -> u64 {
		if self.is_coinbase {
			self.height + global::coinbase_maturity()
		} else {
			self.height
		}
	}
	pub fn n_child(&self) -> u32 {
		self.key_id.to_path().last_path_index()
	}
}

pub fn keychain_from_phrase(phrase: &str) -> Result<ExtKeychain, String> {
	let ent = mnemonic::to_entropy(phrase).map_err(|e| format!("{:?}", e))?;
	ExtKeychain::from_seed(&ent, false).map_err(|e| format!("{:?}", e))
}

/// All unspent outputs on `chain` that rewind under `kc`.
pub fn owned_utxos(chain: &Chain, kc: &ExtKeychain) -> Result<Vec<Owned>, String> {
	let builder = ProofBuilder::new(kc);
	let mut res = vec![];
	let mut start = 1u64;
	loop {
		let (last, highest, outs) = chain
			.unspent_outputs_by_pmmr_index(start, 5000, None)
			.map_err(|e| format!("{:?}", e))?;
		for o in outs {
			let commit = o.commitment();
			let info = proof::rewind(kc.secp(), &builder, commit, None, o.proof).map_err(|e| format!("{:?}", e))?;
			if let Some((value, key_id, _sw)) = info {
				let pos = chain
					.get_unspent(commit)
					.map_err(|e| format!("{:?}", e))?
					.ok_or("listed output not unspent")?;
				res.push(Owned {
					commit,
					value,
					parent: key_id.parent_path(),
					key_id,
					height: pos.1.height,
					is_coinbase: o.is_coinbase(),
					mmr_pos: pos.1.pos,
				});
			}
		}
		if highest <= last {
			break;
		}
		start = last + 1;
	}
	Ok(res)
}

pub fn by_commit(v: &[Owned]) -> BTreeMap<Vec<u8>, Owned> {
	v.iter().map(|o| (o.commit.0.to_vec(), o.clone())).collect()
}

pub fn kernel_on_chain(chain: &Chain, excess: &Commitment) -> bool {
	matches!(chain.get_kernel_height(excess, None, None), Ok(Some(_)))
}
