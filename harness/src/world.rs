//! A world: one real grin chain (AutomatedTesting params) + real LMDB wallets wired to it through
//! DirectNode. Worlds live in a directory, can be copied and re-opened.

use crate::node::DirectNode;
use grin_chain::types::NoopAdapter;
use grin_chain::{Chain, Options, Tip};
use grin_core::core::hash::Hashed;
use grin_core::core::{Block, BlockHeader, Output, Transaction, TxKernel};
use grin_core::global::{self, ChainTypes};
use grin_core::libtx::{self, reward, ProofBuilder};
use grin_core::{consensus, pow, ser};
use grin_keychain::{ExtKeychain, Identifier, Keychain};
use grin_util::secp::key::SecretKey;
use grin_util::{Mutex, ZeroingString};
use grin_wallet_api::{Foreign, Owner};
use grin_wallet_impls::{DefaultLCProvider, DefaultWalletImpl};
use grin_wallet_libwallet::{
	BlockFees, NodeClient, StatusMessage, WalletBackend, WalletInst,
};
use serde_json::{json, Value};
use std::path::{Path, PathBuf};
use std::sync::mpsc::{channel, Receiver};
use std::sync::Arc;

pub type LC = DefaultLCProvider<'static, DirectNode, ExtKeychain>;
pub type WInst = Arc<Mutex<Box<dyn WalletInst<'static, LC, DirectNode, ExtKeychain>>>>;
pub type Backend = dyn WalletBackend<'static, DirectNode, ExtKeychain>;

pub fn init_globals() {
	// global (for spawned threads) + thread-local
	if !global::GLOBAL_CHAIN_TYPE.is_init() {
		global::init_global_chain_type(ChainTypes::AutomatedTesting);
	}
	global::set_local_chain_type(ChainTypes::AutomatedTesting);
}

pub struct Wal {
	pub name: String,
	pub dir: PathBuf,
	pub inst: WInst,
	pub mask: Option<SecretKey>,
	pub phrase: String,
	pub password: String,
	pub owner: Owner<LC, DirectNode, ExtKeychain>,
	pub _status_rx: Receiver<StatusMessage>,
	pub masked: bool,
}

impl Wal {
	pub fn m(&self) -> Option<&SecretKey> {
		self.mask.as_ref()
	}
	/// Run `f` on the backend under the wallet lock.
	pub fn with<T>(&self, f: impl FnOnce(&mut Backend) -> T) -> T {
		let mut l = self.inst.lock();
		let lc = l.lc_provider().expect("lc_provider");
		let w = lc.wallet_inst().expect("wallet_inst (wallet open?)");
		f(&mut **w)
	}
	pub fn foreign(&self) -> Foreign<'static, LC, DirectNode, ExtKeychain> {
		Foreign::new(self.inst.clone(), self.mask.clone(), None, false)
	}
	pub fn data_dir(&self) -> PathBuf {
		self.dir.join("wallet_data")
	}
	pub fn db_file(&self) -> PathBuf {
		self.dir.join("wallet_data/db/lmdb/data.mdb")
	}
	pub fn active_parent(&self) -> Identifier {
		self.with(|w| w.parent_key_id())
	}
	pub fn set_account(&self, label: &str) -> Result<(), String> {
		self.owner
			.set_active_account(self.m(), label)
			.map_err(|e| format!("{}", e))
	}
}

pub fn make_inst(node: DirectNode) -> WInst {
	let wallet = Box::new(DefaultWalletImpl::<DirectNode>::new(node).unwrap())
		as Box<dyn WalletInst<'static, LC, DirectNode, ExtKeychain>>;
	Arc::new(Mutex::new(wallet))
}

pub fn create_wallet(
	dir: &Path,
	name: &str,
	node: DirectNode,
	phrase: Option<&str>,
	password: &str,
	masked: bool,
) -> Result<Wal, String> {
	let wdir = dir.join(name);
	let inst = make_inst(node);
	{
		let mut l = inst.lock();
		let lc = l.lc_provider().map_err(|e| e.to_string())?;
		lc.set_top_level_directory(wdir.to_str().unwrap())
			.map_err(|e| e.to_string())?;
		lc.create_wallet(
			None,
			phrase.map(|p| ZeroingString::from(p)),
			32,
			ZeroingString::from(password),
			false,
		)
		.map_err(|e| format!("create_wallet: {}", e))?;
	}
	open_inst(inst, wdir, name, password, masked)
}

pub fn open_wallet(
	dir: &Path,
	name: &str,
	node: DirectNode,
	password: &str,
	masked: bool,
) -> Result<Wal, String> {
	let wdir = dir.join(name);
	let inst = make_inst(node);
	{
		let mut l = inst.lock();
		let lc = l.lc_provider().map_err(|e| e.to_string())?;
		lc.set_top_level_directory(wdir.to_str().unwrap())
			.map_err(|e| e.to_string())?;
	}
	open_inst(inst, wdir, name, password, masked)
}

fn open_inst(inst: WInst, wdir: PathBuf, name: &str, password: &str, masked: bool) -> Result<Wal, String> {
	let (mask, phrase) = {
		let mut l = inst.lock();
		let lc = l.lc_provider().map_err(|e| e.to_string())?;
		let mask = lc
			.open_wallet(None, ZeroingString::from(password), masked, false)
			.map_err(|e| format!("open_wallet: {}", e))?;
		let phrase = lc
			.get_mnemonic(None, ZeroingString::from(password))
			.map_err(|e| format!("get_mnemonic: {}", e))?;
		(mask, (&*phrase).to_string())
	};
	let (tx, rx) = channel();
	let owner = Owner::new(inst.clone(), Some(tx));
	Ok(Wal {
		name: name.to_string(),
		dir: wdir,
		inst,
		mask,
		phrase,
		password: password.to_string(),
		owner,
		_status_rx: rx,
		masked,
	})
}

pub struct World {
	pub dir: PathBuf,
	pub chain: Arc<Chain>,
	pub genesis: Block,
	pub node: DirectNode,
	pub wallets: Vec<Wal>,
	/// keychain receiving rewards nobody owns
	pub nobody: ExtKeychain,
	pub nobody_n: u32,
}

/// (added for C15) What is needed to reopen a wallet whose handle was dropped.
#[derive(Clone, Debug)]
pub struct Detached {
	pub index: usize,
	pub name: String,
	pub password: String,
	pub masked: bool,
	pub phrase: String,
	/// the wallet's top-level directory (contains wallet_data/)
	pub dir: PathBuf,
	pub active: Identifier,
}

fn chain_dir(dir: &Path) -> String {
	dir.join(".grin").to_string_lossy().to_string()
}

pub fn open_chain(dir: &Path, genesis: &Block) -> Result<Arc<Chain>, String> {
	let c = Chain::init(
		chain_dir(dir),
		Arc::new(NoopAdapter {}),
		genesis.clone(),
		pow::verify_size,
		false,
	)
	.map_err(|e| format!("Chain::init: {:?}", e))?;
	Ok(Arc::new(c))
}

impl World {
	pub fn create(dir: &Path) -> Result<World, String> {
		init_globals();
		std::fs::create_dir_all(dir).map_err(|e| e.to_string())?;
		let genesis = pow::mine_genesis_block().map_err(|e| format!("{:?}", e))?;
		let chain = open_chain(dir, &genesis)?;
		{
			let store = chain.store();
			let batch = store.batch().map_err(|e| format!("{:?}", e))?;
			batch
				.save_pibd_head(&Tip::from_header(&genesis.header))
				.map_err(|e| format!("{:?}", e))?;
			batch.commit().map_err(|e| format!("{:?}", e))?;
		}
		let gbytes = ser::ser_vec(&genesis, ser::ProtocolVersion(1)).map_err(|e| format!("{:?}", e))?;
		std::fs::write(dir.join("genesis.bin"), gbytes).map_err(|e| e.to_string())?;
		let node = DirectNode::new(Some(chain.clone()));
		let w = World {
			dir: dir.to_path_buf(),
			chain,
			genesis,
			node,
			wallets: vec![],
			nobody: ExtKeychain::from_seed(&[7u8; 32], false).unwrap(),
			nobody_n: 0,
		};
		w.save_meta();
		Ok(w)
	}

	pub fn save_meta(&self) {
		let ws: Vec<Value> = self
			.wallets
			.iter()
			.map(|w| json!({"name": w.name, "password": w.password, "masked": w.masked}))
			.collect();
		let _ = std::fs::write(
			self.dir.join("world.json"),
			serde_json::to_vec(&json!({"wallets": ws, "nobody_n": self.nobody_n})).unwrap(),
		);
	}

	pub fn open(dir: &Path) -> Result<World, String> {
		init_globals();
		let gbytes = std::fs::read(dir.join("genesis.bin")).map_err(|e| e.to_string())?;
		let genesis: Block = ser::deserialize(
			&mut &gbytes[..],
			ser::ProtocolVersion(1),
			ser::DeserializationMode::default(),
		)
		.map_err(|e| format!("{:?}", e))?;
		let chain = open_chain(dir, &genesis)?;
		let node = DirectNode::new(Some(chain.clone()));
		let meta: Value = serde_json::from_slice(
			&std::fs::read(dir.join("world.json")).map_err(|e| e.to_string())?,
		)
		.map_err(|e| e.to_string())?;
		let mut wallets = vec![];
		for w in meta["wallets"].as_array().cloned().unwrap_or_default() {
			wallets.push(open_wallet(
				dir,
				w["name"].as_str().unwrap(),
				node.clone(),
				w["password"].as_str().unwrap(),
				w["masked"].as_bool().unwrap_or(false),
			)?);
		}
		Ok(World {
			dir: dir.to_path_buf(),
			chain,
			genesis,
			node,
			wallets,
			nobody: ExtKeychain::from_seed(&[7u8; 32], false).unwrap(),
			nobody_n: meta["nobody_n"].as_u64().unwrap_or(0) as u32,
		})
	}

	/// Copy this world's directory (state as on disk) to `to` and open the copy.
	pub fn copy_dir(from: &Path, to: &Path) -> Result<(), String> {
		copy_tree(from, to).map_err(|e| format!("copy {:?}->{:?}: {}", from, to, e))
	}

	pub fn add_wallet(&mut self, name: &str, phrase: Option<&str>, password: &str, masked: bool) -> Result<usize, String> {
		let w = create_wallet(&self.dir, name, self.node.clone(), phrase, password, masked)?;
		self.wallets.push(w);
		self.save_meta();
		Ok(self.wallets.len() - 1)
	}

	/// Drop and reopen wallet i from disk (process restart of the wallet).
	pub fn restart_wallet(&mut self, i: usize) -> Result<(), String> {
		let (name, pw, masked) = {
			let w = &self.wallets[i];
			(w.name.clone(), w.password.clone(), w.masked)
		};
		// replace with a placeholder first so the old LMDB env is dropped before re-opening
		let active = self.wallets[i].active_parent();
		let old = self.wallets.remove(i);
		drop(old);
		let w = open_wallet(&self.dir, &name, self.node.clone(), &pw, masked)?;
		// a restarted wallet starts on the default account, as the real binary does unless told otherwise;
		// keep the same active account the harness had selected (the CLI passes -a each time)
		w.with(|b| b.set_parent_key_id(active));
		self.wallets.insert(i, w);
		Ok(())
	}

	/// (added for C15) Drop the handle of wallet `i` (closes its LMDB environment) so that its directory can be
	/// opened by something else (fault wrapper) or replaced; `attach_wallet` reopens it from disk at the same index.
	pub fn detach_wallet(&mut self, i: usize) -> Detached {
		let active = self.wallets[i].active_parent();
		let old = self.wallets.remove(i);
		let d = Detached {
			index: i,
			name: old.name.clone(),
			password: old.password.clone(),
			masked: old.masked,
			phrase: old.phrase.clone(),
			dir: old.dir.clone(),
			active,
		};
		drop(old);
		d
	}

	/// (added for C15) Reopen a detached wallet from disk (real lifecycle code) and put it back at its index,
	/// with the account that was active when it was detached.
	pub fn attach_wallet(&mut self, d: &Detached) -> Result<(), String> {
		let w = open_wallet(&self.dir, &d.name, self.node.clone(), &d.password, d.masked)?;
		w.with(|b| b.set_parent_key_id(d.active.clone()));
		self.wallets.insert(d.index, w);
		Ok(())
	}

	pub fn height(&self) -> u64 {
		self.chain.head().unwrap().height
	}

	pub fn head_header(&self) -> BlockHeader {
		self.chain.head_header().unwrap()
	}

	/// Build a coinbase for wallet `wi` (active account) through the foreign API.
	pub fn coinbase_for(&self, wi: usize, fees: u64, height: u64, key_id: Option<Identifier>) -> Result<(Output, TxKernel, Option<Identifier>), String> {
		let bf = BlockFees {
			fees,
			key_id,
			height,
		};
		let cb = self.wallets[wi]
			.foreign()
			.build_coinbase(&bf)
			.map_err(|e| format!("build_coinbase: {}", e))?;
		Ok((cb.output, cb.kernel, cb.key_id))
	}

	pub fn coinbase_nobody(&mut self, fees: u64) -> (Output, TxKernel) {
		self.nobody_n += 1;
		// unique per (height being built, in-memory counter): survives re-opening a copied world
		let h = self.height() as u32 + 1;
		let kid = ExtKeychain::derive_key_id(3, 9, h, self.nobody_n, 0);
		reward::output(&self.nobody, &ProofBuilder::new(&self.nobody), &kid, fees, false).unwrap()
	}

	/// Build a block on `prev` (not necessarily the head).
	pub fn build_block(&self, prev: &BlockHeader, txs: &[Transaction], rew: (Output, TxKernel)) -> Result<Block, String> {
		let diff_iter = grin_chain::store::DifficultyIter::from(prev.hash(), self.chain.store());
		let next = consensus::next_difficulty(prev.height + 1, diff_iter);
		let mut b = Block::new(prev, txs, next.difficulty, rew).map_err(|e| format!("Block::new: {:?}", e))?;
		b.header.timestamp = prev.timestamp + chrono::Duration::seconds(60);
		b.header.pow.secondary_scaling = next.secondary_scaling;
		self.chain
			.set_txhashset_roots(&mut b)
			.map_err(|e| format!("set_txhashset_roots: {:?}", e))?;
		pow::pow_size(
			&mut b.header,
			next.difficulty,
			global::proofsize(),
			global::min_edge_bits(),
		)
		.map_err(|e| format!("pow: {:?}", e))?;
		Ok(b)
	}

	pub fn process(&self, b: Block) -> Result<(), String> {
		self.chain
			.process_block(b, Options::MINE)
			.map(|_| ())
			.map_err(|e| format!("process_block: {:?}", e))
	}

	/// Mine one block on the head. `to` = wallet index receiving the reward (its active account).
	pub fn mine(&mut self, to: Option<usize>, txs: &[Transaction]) -> Result<Block, String> {
		let prev = self.head_header();
		let fees: u64 = txs.iter().map(|t| t.fee()).sum();
		let rew = match to {
			Some(wi) => {
				let (o, k, _) = self.coinbase_for(wi, fees, prev.height + 1, None)?;
				(o, k)
			}
			None => self.coinbase_nobody(fees),
		};
		let b = self.build_block(&prev, txs, rew)?;
		self.process(b.clone())?;
		Ok(b)
	}

	/// Mine one block on `prev` (any known header, not necessarily the head) and feed it to the chain.
	/// Used to build forks: the chain re-organises by itself once the new branch carries more work.
	/// `to` = wallet index receiving the reward (its active account), None = nobody.
	pub fn mine_on(&mut self, prev: &BlockHeader, to: Option<usize>, txs: &[Transaction]) -> Result<Block, String> {
		let fees: u64 = txs.iter().map(|t| t.fee()).sum();
		let rew = match to {
			Some(wi) => {
				let (o, k, _) = self.coinbase_for(wi, fees, prev.height + 1, None)?;
				(o, k)
			}
			None => self.coinbase_nobody(fees),
		};
		let b = self.build_block(prev, txs, rew)?;
		self.process(b.clone())?;
		Ok(b)
	}

	/// Header of the block at `height` on the current best chain.
	pub fn header_at(&self, height: u64) -> Result<BlockHeader, String> {
		self.chain
			.get_header_by_height(height)
			.map_err(|e| format!("get_header_by_height({}): {:?}", height, e))
	}

	pub fn mine_n(&mut self, to: Option<usize>, n: usize) -> Result<(), String> {
		for _ in 0..n {
			self.mine(to, &[])?;
		}
		Ok(())
	}

	pub fn tip_string(&self) -> String {
		let h = self.chain.head().unwrap();
		format!("{}@{}", h.height, &format!("{}", h.last_block_h)[..8])
	}
}

pub fn copy_tree(from: &Path, to: &Path) -> std::io::Result<()> {
	std::fs::create_dir_all(to)?;
	for e in std::fs::read_dir(from)? {
		let e = e?;
		let ft = e.file_type()?;
		let dst = to.join(e.file_name());
		if ft.is_dir() {
			copy_tree(&e.path(), &dst)?;
		} else if ft.is_file() {
			std::fs::copy(e.path(), dst)?;
		}
	}
	Ok(())
}

/// Scratch directory for this process (under /dev/shm when available); removed on drop.
pub struct Scratch {
	pub path: PathBuf,
}
impl Scratch {
	pub fn new(base: &Path, tag: &str) -> Scratch {
		let p = base.join(format!("{}.{}", tag, std::process::id()));
		let _ = std::fs::remove_dir_all(&p);
		std::fs::create_dir_all(&p).expect("scratch dir");
		Scratch { path: p }
	}
	pub fn sub(&self, name: &str) -> PathBuf {
		self.path.join(name)
	}
}
impl Drop for Scratch {
	fn drop(&mut self) {
		let _ = std::fs::remove_dir_all(&self.path);
	}
}

pub fn fee_of(n_in: usize, n_out: usize, n_kern: usize) -> u64 {
	libtx::tx_fee(n_in, n_out, n_kern)
}

pub fn ignore<T>(_t: T) {}

/// suppress unused warning for NodeClient import in some cfgs
pub fn _nc<C: NodeClient>(_c: &C) {}
