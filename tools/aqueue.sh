#!/bin/bash
# usage: aqueue.sh <slot> tag:dir ...   (sequential phase A with one reused worktree + target dir per slot)
slot=$1; shift
wt=/tmp/vs/wtA-$slot
export CARGO_TARGET_DIR=/tmp/vs/targetA-$slot CARGO_NET_OFFLINE=true
git -C /repo worktree remove --force "$wt" >/dev/null 2>&1
git -C /repo worktree add --detach "$wt" HEAD >/dev/null 2>&1 || { echo "worktree failed"; exit 3; }
for j in "$@"; do
  tag=${j%%:*}; src=${j##*:}
  cd "$wt"; git checkout -q -- . ; git clean -fdq
  crate=$(python3 -c "import json;print(json.load(open('$src/meta.json')).get('demo_crate','controller'))")
  demo=$(python3 -c "import json;print(json.load(open('$src/meta.json')).get('demo_file','demo_test.rs'))")
  demo=$(basename "$demo"); tname=$(basename "$demo" .rs)
  [ -f "$src/$demo" ] || demo=$(ls "$src" | grep '\.rs$' | head -1)
  tname=$(basename "$demo" .rs)
  case "$crate" in */*) crate=$(echo $crate | cut -d/ -f1);; esac
  [ -d "$wt/$crate" ] || crate=controller
  mkdir -p "$wt/$crate/tests"; cp "$src/$demo" "$wt/$crate/tests/$tname.rs"
  ( cd "$wt/$crate" && cargo test --offline --test "$tname" > /tmp/vs/demo0-$tag.log 2>&1 ); r0=$?
  git apply "$src/patch.diff" || { echo "SUMMARY tag=$tag PATCH-DOES-NOT-APPLY" >> /tmp/vs/A-results.txt; continue; }
  ( cd "$wt/$crate" && cargo test --offline --test "$tname" > /tmp/vs/demo1-$tag.log 2>&1 ); r1=$?
  rm -f "$wt/$crate/tests/$tname.rs"
  cargo test --workspace --no-fail-fast --offline > /tmp/vs/suite-$tag.log 2>&1; rs=$?
  failed=$(grep -E "^test .* \.\.\. FAILED" /tmp/vs/suite-$tag.log | awk '{print $2}' | sort -u | tr '\n' ' ')
  still=""
  for t in $failed; do
    ok=0
    for attempt in 1 2 3; do
      sleep $((RANDOM % 25))
      cargo test --workspace --offline "$t" > /tmp/vs/rerun-$tag-$(echo $t | tr ':' '_').log 2>&1 && { ok=1; break; }
    done
    [ $ok = 1 ] || still="$still $t"
  done
  pass=$(grep -E "^test result" /tmp/vs/suite-$tag.log | awk '{p+=$4} END {print p}')
  echo "SUMMARY tag=$tag crate=$crate demo=$tname demo_without_exit=$r0 demo_with_exit=$r1 suite_exit=$rs suite_passed=$pass first_failed=[${failed}] still_failing_alone=[${still}]" >> /tmp/vs/A-results.txt
done
git -C /repo worktree remove --force "$wt" >/dev/null 2>&1
rm -rf "$CARGO_TARGET_DIR"
echo "AQUEUE $slot DONE" >> /tmp/vs/A-results.txt
