#!/bin/bash
# usage: bqueue.sh id:dir ...
for j in "$@"; do
  id=${j%%:*}; d=${j##*:}
  echo "=== $id $d $(date +%H:%M:%S)" >> /tmp/vs/B-results.txt
  /verif/tools/verify_seeded.sh B $id $d >> /tmp/vs/B-results.txt 2>&1
  cp /tmp/vs/check-$id.log /tmp/vs/check-$id-$(basename $d)-$(basename $(dirname $d)).log 2>/dev/null
done
echo "=== QUEUE DONE $(date +%H:%M:%S)" >> /tmp/vs/B-results.txt
