#!/usr/bin/env python3
"""Refresh commit hashes in known_findings.json after history edits in /repo (matches by commit subject)."""
import json, subprocess, re
p='/verif/known_findings.json'
j=json.load(open(p))
log=subprocess.run(["git","-C","/repo","log","--format=%h\t%s"],stdout=subprocess.PIPE,text=True).stdout.splitlines()
by_subject={l.split('\t',1)[1]:l.split('\t',1)[0] for l in log}
for f in j['findings']:
    if f.get('status')!='fixed': continue
    subj=f.get('commit_subject')
    if not subj:
        r=subprocess.run(["git","-C","/repo","show","-s","--format=%s",f['commit']],stdout=subprocess.PIPE,stderr=subprocess.DEVNULL,text=True)
        subj=r.stdout.strip()
        if not subj:
            print("cannot resolve", f['signature'], f['commit']); continue
        f['commit_subject']=subj
    new=by_subject.get(subj)
    if not new:
        print("subject not in log:", subj); continue
    if new!=f['commit']:
        f['what']=f['what'].replace(f['commit'],new)
        f['commit']=new
json.dump(j,open(p,'w'),indent=1)
print("ok")
