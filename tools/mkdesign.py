#!/usr/bin/env python3
"""Regenerates the generated parts of DESIGN.md (9.4 findings, 9.5 seeded changes) between markers."""
import json, os, re, textwrap
ROOT = os.path.dirname(os.path.dirname(os.path.abspath(__file__)))
kf = json.load(open(os.path.join(ROOT, "known_findings.json")))["findings"]
res_path = os.path.join(ROOT, "seeded", "results.json")
res = json.load(open(res_path)) if os.path.exists(res_path) else {}

def short(s, n=260):
    s = re.sub(r"^(fixed|open): property=C\d+ ?\S* ?", "", s).strip()
    s = re.sub(r"\s+", " ", s)
    return s if len(s) <= n else s[: n - 3] + "..."

out = []
out.append("### 9.4 Genuine defects found on the unchanged tree\n")
out.append("Every entry was reproduced by the named check against the real code (shrunk replay files were produced at the time; for fixed entries the check is now silent). Authoritative list: `known_findings.json`.\n")
fixed = [f for f in kf if f["status"] == "fixed"]
openf = [f for f in kf if f["status"] == "open"]
# group fixed by commit
by_commit = {}
for f in fixed:
    by_commit.setdefault((f["commit"], f.get("commit_subject", "")), []).append(f)
out.append("**Repaired** (%d root causes, one unguarded `fix:` commit each in /repo; %d signatures):\n" % (len(by_commit), len(fixed)))
out.append("| /repo commit | property | what failed |\n|---|---|---|")
for (c, subj), fs in sorted(by_commit.items(), key=lambda kv: (sorted(x["property"] for x in kv[1])[0], kv[0][1])):
    props = ", ".join(sorted(set(x["property"] for x in fs)))
    out.append("| `%s` | %s | %s |" % (c, props, short(subj.replace("fix: ", ""), 300).replace("|", "\\|")))
out.append("")
out.append("**Recorded, not repaired** (%d; the check prints `KNOWN-FINDING:` for exactly these signatures and keeps searching past them):\n" % len(openf))
out.append("| property | signature | what fails / why not repaired |\n|---|---|---|")
for f in sorted(openf, key=lambda x: x["property"]):
    out.append("| %s | `%s` | %s |" % (f["property"], f["signature"].replace("|", "\\|")[:110], short(f["what"], 420).replace("|", "\\|")))
out.append("")

out.append("### 9.5 Independently seeded property-breaking changes (`/verif/seeded/<id>/<n>/`)\n")
out.append(textwrap.dedent("""\
    For every property a fresh sub-agent that saw only the property text and its own scratch worktree of /repo wrote one or two
    realistic changes that break the property while the repository still compiles and its own test suite still passes, with a
    demonstration test that passes without and fails with the change. Each change was then confirmed here in a scratch worktree
    (`tools/verify_seeded.sh`, `/tmp/vs/aqueue.sh`: demonstration passes without / fails with the change; full suite passes with the
    change, the two fixed-port `owner_v3_*` tests re-run alone when several suites ran at once) and the property's quick check
    was run with the change applied to /repo (`git apply`, `./check`, `git checkout -- .`). "first run" is the check as it was
    when the change arrived; "now" is after the strengthening named in the last column.
    """))
out.append("| seed | what the change does / what it needs | confirmed (demo -/+ , suite) | caught: first run | caught: now | signatures / strengthening |\n|---|---|---|---|---|---|")
for key in sorted(res.keys()):
    r = res[key]
    out.append("| %s | %s | %s | %s | %s | %s |" % (key, short(r.get("summary", ""), 330).replace("|", "\\|"), r.get("confirmed", "?"), r.get("first", "?"), r.get("now", "?"), short(r.get("notes", ""), 330).replace("|", "\\|")))
out.append("")
text = "\n".join(out)
p = os.path.join(ROOT, "DESIGN.md")
s = open(p).read()
begin, end = "<!-- GENERATED:9.4-9.5 BEGIN -->", "<!-- GENERATED:9.4-9.5 END -->"
if begin in s:
    s = s[: s.index(begin)] + begin + "\n" + text + "\n" + end + s[s.index(end) + len(end):]
else:
    s = s.rstrip("\n") + "\n\n" + begin + "\n" + text + "\n" + end + "\n"
open(p, "w").write(s)
print("DESIGN.md updated: %d fixed signatures, %d open, %d seeded" % (len(fixed), len(openf), len(res)))
