#!/usr/bin/env python3
"""Regenerates /verif/MANIFEST.json from the table below (kept in one place so it stays valid)."""
import json, os, subprocess
ROOT = os.path.dirname(os.path.dirname(os.path.abspath(__file__)))
ids = [json.loads(l)["id"] for l in open(os.path.join(ROOT, "properties.jsonl"))]

TRUST = "grin_core/grin_keychain/grin_chain/grin_store 5.3.3, secp256k1zkp, LMDB atomic commit, serde_json, proptest, rustc; release-profile build with unwinding panics; overflow checks ON in the grin_wallet_* crates, off upstream"

CHECKS = {
 "C01": dict(
  engine="pbt",
  category="exploration",
  text="Property-based search over generated output sets and send parameters against a u128 conservation/spendability/min-fee oracle, on the pure selection functions (120k cases quick) and on the owner API (init/lock, estimate, late-lock+finalize, invoice payer; 1.2k cases quick) with full raw-DB 'nothing persisted on error' diff. Exploration, not proof: the parameter space is unbounded, the generators are stratified over the corner classes the statement names.",
  design_ref="DESIGN.md §4 C01",
  technique="proptest generators + u128 reference oracle + raw LMDB snapshot diff",
  note=TRUST + "; wallet total <= 2^63; num_change_outputs > 10^4 only through select_coins_and_fee/estimate_only"),
 "C04": dict(
  engine="world",
  category="exploration",
  text="Stateful model-based search: generated histories (mine/refresh/node outages/accounts/sends/invoices/self-sends/restarts) on a real chain and real LMDB wallets; after every successful refresh the live records, the five balance figures (3 confirmation settings) and the ledger equation are compared with a ground truth rewound from the chain's UTXO set with an independently derived keychain. Exploration over sampled histories, not exhaustive.",
  design_ref="DESIGN.md §4 C04",
  technique="model-based stateful proptest (op vectors) + chain-derived ground-truth oracle",
  note=TRUST + "; Chain::process_block/validate_tx and proof::rewind are ground truth; domain restrictions of the statement encoded in the generator (no cancelled tx mined, no forks, min_conf>=1, no TTL)"),
 "C05": dict(
  engine="world",
  category="exploration",
  text="Metamorphic three-snapshot check (before the transaction / before cancel / after cancel) over generated wallets with other pending transactions and a target transaction of 12 kinds/stages, cancel addressed by log id or slate id, plus negative cases; the whole raw LMDB content and stored files are diffed so that any collateral change is seen. Exploration over sampled scenarios.",
  design_ref="DESIGN.md §4 C05",
  technique="model-based scenarios (proptest) + metamorphic snapshot diff oracle",
  note=TRUST + "; only status and value of rolled-back outputs are compared (statement's wording)"),
 "C03": dict(
  engine="world",
  category="exploration",
  text="Stateful search over histories in which protocol steps of several concurrent slates are issued in any order, repeated and duplicated; after every step the inputs of every live outgoing transaction (read from the stored transactions) must be pairwise disjoint and recorded Locked/Spent, no slate has two live entries, and a repeated step is refused or changes nothing (raw DB diff). Exploration over sampled histories.",
  design_ref="DESIGN.md §4 C03",
  technique="model-based stateful proptest + history invariants over wallet snapshots",
  note=TRUST + "; overlapping coin selection before any reservation is allowed by the statement"),
 "C19": dict(
  engine="pbt",
  category="exploration",
  text="Differential check of Owner::retrieve_txs against a reference filter written from the field documentation, with a validity predicate (subset, exact length, monotone keys, valid top-k under ties) over synthetic logs in a real LMDB backend; every reading the documentation leaves open is accepted. ~49k queries per quick run.",
  design_ref="DESIGN.md §4 C19",
  technique="proptest generators + reference-model differential / validity predicate",
  note=TRUST + "; undocumented meanings (amount orientation, cancelled types, missing confirmation time) accepted under any reading"),
 "C02": dict(
  engine="world",
  category="exploration",
  text="Model-based scenarios bring a wallet (generated history) to 'reply in hand' in 5 flows; the reply is delivered honest or with one of 22 structural mutation kinds. Ok => the returned transaction must validate under consensus rules, carry the agreed fee, spend exactly the reserved inputs, return exactly the recorded change, equal the stored transaction byte for byte, and (honest) be accepted in a block by the real chain; Err => the transaction is still cancellable and its inputs return. Exploration over sampled (flow x mutation x args) combinations.",
  design_ref="DESIGN.md §4 C02",
  technique="model-based scenarios (proptest) + reply mutation (metamorphic) + consensus validation oracle",
  note=TRUST + "; Transaction::validate and Chain::process_block are ground truth; mutations never use the counterparty's secrets"),
 "C09": dict(
  engine="pbt+fuzz",
  category="exploration",
  text="Structured-mutation property test (60k cases => ~680k inputs, ~1.9M entry-point calls per quick run) over every external decoding entry point incl. both JSON-RPC handlers driven in-process and ciphertexts validly encrypted to the wallet with malformed plaintext; oracle: returns Ok/Err without unwinding and a rejected input leaves the raw wallet DB unchanged. Thorough tier adds coverage-guided libFuzzer campaigns (harness/fuzz, 5 targets).",
  design_ref="DESIGN.md §4 C09",
  technique="proptest structured mutation of valid encodings + libFuzzer targets, totality oracle + state diff",
  note=TRUST + "; inputs <= 64 KiB in the property test; hang/alloc bounds via watchdog and libFuzzer limits; two panics inside upstream crates are open known findings"),
 "C10": dict(
  engine="pbt",
  category="exploration",
  text="Round-trip with every recipient key, refusal with every non-recipient identity (other wallets, other derivation indices, other account, random keys), plaintext-leak search over binary and JSON forms, single-byte edits at every position of the encrypted container re-armored with a correct check code, and single-character edits of unencrypted armor with an independent SHA-256d recomputation.",
  design_ref="DESIGN.md §4 C10",
  technique="proptest generators + round-trip / negative-key / needle-search / tamper oracles",
  note=TRUST + "; age 0.7 and the 32-bit armor check code are trusted (true collisions are recognised and reported as such)"),
 "C13": dict(
  engine="pbt",
  category="exploration",
  text="Stateful sessions against an in-process OwnerAPIHandlerV3 (no sockets): key exchange / re-init, encrypted calls under current, superseded and random keys with envelope tampering, plaintext calls, batches, garbage; the harness decides 'authenticated' itself (secp256k1 ECDH + ring AES-256-GCM) and requires error + no ciphertext + no wallet data + unchanged raw DB/session state for everything else, and a reply under the same key for authenticated requests. ~92k evaluations per quick run; a libFuzzer target exists for the thorough tier.",
  design_ref="DESIGN.md §4 C13",
  technique="stateful proptest sessions + independent AEAD authentication oracle + snapshot diff",
  note=TRUST + "; ring AES-GCM as reference; an authenticated ciphertext in an unusual envelope may have either outcome"),
 "C14": dict(
  engine="pbt",
  category="exploration",
  text="Every token-taking owner method (table checked against owner_rpc.rs at start-up) x wrong tokens (absent, other wallet's, generated bit flip, random) x 4 wallet states: raw DB + active account unchanged, key-using methods return InvalidKeychainMask; masked-with-right-token vs unmasked differential over generated op sequences; closed-wallet refusal and re-open.",
  design_ref="DESIGN.md §4 C14",
  technique="proptest + exhaustive method table + masked/unmasked differential oracle",
  note=TRUST + "; the unmasked reference is the same wallet directory opened without mask on a separate world copy"),
 "C08": dict(
  engine="pbt",
  category="exploration",
  text="Structural slate generator producing an intent record; for each of 9 encodings (V4 JSON, V4 binary, slatepack binary/JSON/armored, plain and age-encrypted) the decoded slate projected by the harness from Slate's public fields must equal the intent, a second round trip must be idempotent, fully signed slates (real two-party signing, every kernel feature) must keep a validating transaction, and addresses / onion addresses / stored records round-trip. 6k slates x 9 encodings + 160 signed + 16k misc per quick run.",
  design_ref="DESIGN.md §4 C08",
  technique="proptest structural generators + round-trip / cross-encoding differential oracle",
  note=TRUST + "; the projection is computed by the harness, not by the crate's Slate->SlateV4 conversion; armoring of large slates is sampled (base58 is quadratic)"),
 "C06": dict(
  engine="fault",
  category="fault_enumeration",
  text="For each generated scenario (wallet history + one target operation of 14 kinds) the persistent effects of the operation (LMDB batch commits, key-index bumps, stored-tx writes) are counted through a wrapper of the public backend traits and EVERY effect boundary is then faulted in every mode (crash before, crash after, write error, truncation of the stored-tx file); the wallet is reopened with the real lifecycle code and must load, answer every query without panic, keep reservations and live log entries consistent, allow the pending transaction to be cancelled with the reference spendable amount, and reach the chain's truth after a refresh. Exhaustive over fault points per scenario; scenarios are sampled.",
  design_ref="DESIGN.md §4 C06",
  technique="fault injection at every persistent-effect boundary (trait wrapper) over proptest-generated scenarios + reopen invariants",
  note=TRUST + "; LMDB commit atomic+durable; process death modelled at effect boundaries by unwinding and dropping the instance; a panic provoked by an injected fault counts as a crash, not as a violation"),
 "C07": dict(
  engine="world",
  category="exploration",
  text="Victim wallets in generated states (pending sends incl. late-locked, invoices, receives, two accounts) receive sequences of 1..8 JSON-RPC requests through the real foreign listener handler (ForeignAPIHandlerV2::post with the production middleware): check_version, build_coinbase with every existing key id, receive_tx with honest / mutated / synthetic slates and replays, finalize_tx with forged or mutated replies. Every call is bracketed by typed + raw-DB snapshots: unauthorised calls must not change, reserve, spend or delete anything nor consume a private context nor lower spendable; a successful receive adds exactly one output and one entry and is refused the second time.",
  design_ref="DESIGN.md §4 C07",
  technique="model-based victim states + adversarial request sequences (proptest) + snapshot-diff oracle per call",
  note=TRUST + "; authorised = finalize_tx carrying the cooperating wallet's own honest participant entry (judged by C02); r_addr/dest never set (outbound network)"),
 "C11": dict(
  engine="world",
  category="exploration",
  text="Proof-carrying sends on a real chain; (a) the reply's proof is stripped / re-signed by other keys / signed by the recipient's real key over other amounts, excesses or sender addresses / bit-flipped, and finalize must refuse unless the mutated proof is still the requested recipient's valid signature over (amount, final excess, sender address), decided independently with ed25519-dalek; (b) after mining, every field of the exported proof is altered and verify_payment_proof must refuse, from sender, recipient and third-party wallets with the right (sender_mine, recipient_mine) flags; (c) verification fails while the kernel is not on chain. ~6.5k judgements per quick run.",
  design_ref="DESIGN.md §4 C11",
  technique="model-based scenarios (proptest) + mutation of reply and exported proof + independent ed25519 oracle",
  note=TRUST + "; ed25519-dalek as reference verifier; mutations whose validity cannot be decided independently are not generated"),
 "C12": dict(
  engine="world+pbt+fsfault",
  category="exploration",
  text="(a) needle search (seed, phrase windows, every live context's secret key and nonce; raw / hex / base64 / JSON integer array) over every wallet file and every emitted message after every op of generated histories; (b) seed-file round trip with an independent PBKDF2-HMAC-SHA512 + ChaCha20-Poly1305 routine on ring, wrong-password refusal, change_password; (c) change_password / recover_from_mnemonic run in a child process under an LD_PRELOAD shim that kills it (or injects EIO) before/after every file operation on wallet.seed* and after short writes of every length - exhaustive per case - then every seed file is tried with old and new password; (d) public nonce / excess freshness across all slates of a wallet through the default API objects.",
  design_ref="DESIGN.md §4 C12",
  technique="proptest histories + needle search; independent decrypt; syscall-level kill-point enumeration; distinctness invariant",
  note=TRUST + "; ring as reference crypto; kill points are file-operation boundaries + short writes (no power-loss reordering); the known clear-text copy of context secrets in the DB is excluded by construction and counted"),
 "C15": dict(
  engine="world+fault",
  category="exploration",
  text="Histories of output-creating operations (receive, change, coinbase fresh and re-requested by key id, invoice, build_output, self-send) over 2 wallets x 2 accounts with restarts, crashes injected at persistent-effect boundaries on the live directory (fault wrapper), and restores from seed followed by further creation; the harness keeps, per wallet directory, a map key path -> outputs seen (snapshots, contexts, API results, slates rewound with an independent keychain) and flags any path used for two outputs except the stated coinbase-candidate exception; after a restore the next path must lie beyond every path on chain.",
  design_ref="DESIGN.md §4 C15",
  technique="model-based stateful proptest + crash injection + history invariant (path -> output map is a function)",
  note=TRUST + "; proof::rewind as ground truth for paths on chain; two processes on one wallet directory are not modelled"),
 "C17": dict(
  engine="world",
  category="exploration",
  text="Boundary grid: cutoffs {0,1,h-1,h,h+1,h+k,u64::MAX} x placements {receive_tx, process_invoice_tx, sender finalize_tx, payee finalize_tx, own pending entry + refresh at tips c-1,c,c+1} x 0-3 other pending transactions, each cutoff on its own copy of a prepared world whose active account last refreshed at h (chain tip possibly higher). Refused with unchanged raw DB iff c != 0 and h >= c, otherwise the step must succeed; refresh at tip >= c cancels exactly the expired unconfirmed entries and releases their inputs.",
  design_ref="DESIGN.md §4 C17",
  technique="grid enumeration inside proptest scenarios + two-sided boundary oracle + snapshot diff",
  note=TRUST + "; h is the active account's last successful refresh height (statement: 'has observed')"),
 "C18": dict(
  engine="world",
  category="exploration",
  text="Real reorganisations on the real chain: a confirmed incoming payment, then a heavier fork mined on an ancestor 1..6 blocks below the tip (fork point above, at and below the payment block) with or without the transaction, 0-3 flip-flops, scans / refreshes at generated points, optional re-mining. After every scan: entry TxReverted+unconfirmed iff the kernel is absent, amount_reverted exact, no live record for the payment output or any orphaned coinbase outside the chain's unspent set, exact figures; estimate and real send probes must only select chain UTXOs; one ordinary refresh re-confirms after re-mining.",
  design_ref="DESIGN.md §4 C18",
  technique="model-based fork scenarios (proptest) + chain-derived ground-truth oracle",
  note=TRUST + "; only owner.scan is required to report the revert (statement); what a plain refresh does after a reorg is recorded, not judged"),
 "C16": dict(
  engine="world",
  category="exploration",
  text="(restore) generated multi-account chain histories with node page sizes {1,2,3,7,64,1000}; a new wallet from the same phrase restored by owner.scan or by a plain refresh must record exactly the seed's unspent outputs found by an independent rewind (commitment, value, height, coinbase, lock height, key path, account), reproduce the original wallet's per-account figures, be unchanged by a second scan and hand out its next key beyond every path on chain; (repair) divergences injected through the public batch API, cancel-after-broadcast and reorganisations, then scan(start, delete_unconfirmed) twice: records and balances equal the chain's truth and the second scan leaves the raw DB byte-identical; start heights None/1/every height/tip/tip+1; thorough adds a chain with >1000 unspent outputs.",
  design_ref="DESIGN.md §4 C16",
  technique="model-based histories + divergence injection (proptest) + chain-derived ground-truth / idempotence oracle",
  note=TRUST + "; an output's account is the account its creating operation addressed; operations naming a non-active account are a separate counted class (open known finding)"),
 "C20": dict(
  engine="sched",
  category="exploration",
  text="Cooperative scheduler over real threads using the wallet_lock! hook: exactly one thread runs between wallet-lock acquisitions; one refresh/scan thread plus 1..3 operation threads (init, lock, receive, finalize, cancel, refresh) and the node events 'block accepted' and 'node unreachable' (threads of their own). R + one lock-holding operation: every schedule enumerated; multi-section operations preemption-bounded (1 quick / 2 thorough) plus constructed three-preemption schedule families around the block event (part pat and saved regression schedules); part dwn: the node becomes unreachable before every lock section of R (all schedules) and, with preemption bound 1, together with a block and a second refresh landing inside R (refresh/scan return values not compared there, state and other results are); larger configurations sampled over the choice sequence. The projected final state and every operation's result class must equal those of some serial order of the same operations from the same on-disk start state. A running thread that neither parks nor finishes within 60 s => exit 2 with the schedule saved.",
  design_ref="DESIGN.md §4 C20",
  technique="owned-schedule exploration (exhaustive for small configurations, proptest-sampled otherwise) + serialisability oracle against all serial orders",
  note=TRUST + "; interleavings only at wallet-lock acquisitions (all wallet state is behind that mutex); a node that comes back during the concurrent phase and the Updater::run timing loop are not covered"),
}

hooks_commits = subprocess.run(["git", "-C", "/repo", "log", "--format=%h %s"], stdout=subprocess.PIPE, text=True).stdout.splitlines()
hook_ids = [l.split()[0] for l in hooks_commits if l.split(" ", 1)[1].startswith("verif hooks:")]

checks = []
for pid in ids:
    if pid in CHECKS:
        c = CHECKS[pid]
        checks.append({
            "property_id": pid,
            "quick_cmd": "./check %s --tier quick" % pid,
            "thorough_cmd": "./check %s --tier thorough" % pid,
            "evidence_file": "/verif/evidence/%s.json" % pid,
            "replay_cmd_template": "./check %s --replay {path}" % pid,
            "engine": c["engine"],
            "level_claimed": {"category": c["category"], "text": c["text"], "design_ref": c["design_ref"]},
            "level_note": c["note"],
            "technique": c["technique"],
        })
NA = {}
m = {
 "version": 1,
 "setup_cmd": "cd /verif/harness && CARGO_NET_OFFLINE=true cargo build --release --offline",
 "hooks": {
  "guard": "cargo feature `verif_hooks` of crate grin_wallet_libwallet (default off)",
  "enable": "harness/Cargo.toml depends on ../../repo/libwallet with features=[\"verif_hooks\"]; cargo feature unification applies it to the single libwallet build all wallet crates link",
  "baseline_off_cmd": "cd /repo && cargo test --workspace --no-fail-fast --offline",
  "source_commits": hook_ids,
  "add_only": True,
 },
 "engines": [
  {"name": "pbt", "path": "harness/src/rt.rs + harness/src/props", "serves_properties": [p for p in ids if p in CHECKS and CHECKS[p]["engine"].startswith("pbt")], "kind_free_text": "proptest strategies driven per case by TestRunner with a seed derived from (VERIF_SEED, property, part, tier, index); shrinking yields the replay file"},
  {"name": "sched", "path": "harness/src/sched.rs", "serves_properties": ["C20"], "kind_free_text": "cooperative scheduler over real threads; a schedule is a generated or enumerated sequence of which-thread-runs-next choices at wallet-lock acquisitions (hook before_wallet_lock)"},
  {"name": "fault", "path": "harness/src/fault.rs + harness/fsfault/fsfault.c", "serves_properties": ["C06","C15","C12"], "kind_free_text": "persistent-effect fault injection by wrapping the public backend traits; LD_PRELOAD shim killing a child process at file-operation boundaries of the seed file"},
  {"name": "fuzz", "path": "harness/fuzz + harness/fuzz-c13", "serves_properties": ["C09","C13"], "kind_free_text": "cargo-fuzz / libFuzzer targets with the semantic oracle inside the target (thorough tier)"},
  {"name": "world", "path": "harness/src/world.rs + node.rs + snap.rs", "serves_properties": [p for p in ids if p in CHECKS and CHECKS[p]["engine"] in ("world","fault","world+fault","world+pbt+fsfault")], "kind_free_text": "stateful model-based: real grin chain + real LMDB wallets + thread-free node client, op sequences interpreted against the real API with invariants after every step"},
 ],
 "checks": checks,
 "not_applicable": [{"property_id": p, "reason": NA.get(p, "check not built yet in this session (planned in DESIGN.md §4); not claimed")} for p in ids if p not in CHECKS],
 "notes": "Driver: ./check <id> --tier quick|thorough (VERIF_SEED honoured). Every run first replays the saved inputs in harness/corpus/<id>/ and regress/<ID>/ (regression tier). Exit 0 held / 1 violation / 2 inconclusive / 3 harness error. Known findings: known_findings.json.",
}
json.dump(m, open(os.path.join(ROOT, "MANIFEST.json"), "w"), indent=1)
print("checks:", [c["property_id"] for c in checks])
