#!/usr/bin/env python3
"""Builds /verif/seeded/results.json and per-seed meta.json from the agents' meta files and the verification logs
(/tmp/vs/A-results.txt = phase A: demo without/with + suite; /tmp/vs/B-results.txt = phase B: quick check with the change)."""
import json, os, re, glob
ROOT = os.path.dirname(os.path.dirname(os.path.abspath(__file__)))
FIRST = {  # outcome of the check as it was when the change arrived (exit 1 = caught)
 "C01/1": "yes", "C01/2": "yes", "C02/1": "no", "C02/2": "no", "C03/1": "no", "C03/2": "no", "C04/1": "no", "C04/2": "yes",
 "C05/1": "yes", "C05/2": "no", "C06/1": "yes", "C06/2": "n/a (oracle clause added after reading the change's description, before the first run)",
 "C07/1": "no", "C07/2": "yes", "C08/1": "yes", "C08/2": "yes", "C09/1": "yes", "C09/2": "yes", "C10/1": "no", "C10/2": "yes",
 "C11/1": "no", "C11/2": "yes", "C12/1": "yes", "C12/2": "no", "C13/1": "yes", "C13/2": "yes", "C14/1": "yes", "C14/2": "yes",
 "C15/1": "no", "C15/2": "yes", "C17/1": "no", "C17/2": "yes", "C18/1": "yes", "C18/2": "yes", "C19/1": "yes", "C19/2": "yes",
 # round 2 (one change per property, directories .../3)
 "C01/3": "yes", "C02/3": "no", "C03/3": "yes", "C04/3": "n/a (op LongWait added after reading the change's description, before the first run; the histories before it never kept a transaction pending for > 50 blocks)",
 "C05/3": "yes", "C06/3": "yes", "C07/3": "yes", "C08/3": "yes", "C09/3": "yes", "C10/3": "yes", "C11/3": "yes", "C12/3": "yes",
 # round 3 (prompt asked for less-travelled paths; duplicates of earlier changes were dropped): directories .../4
 "C02/4": "yes", "C04/4": "no", "C06/4": "yes", "C08/4": "yes", "C10/4": "yes", "C15/4": "yes", "C17/4": "no", "C20/4": "no",
 "C11/4": "no", "C14/4": "yes", "C19/4": "yes",
 # round 5 (two changes per agent, in different files; duplicates dropped): directories .../5 and .../6
 "C01/5": "yes", "C03/5": "no", "C05/5": "yes", "C05/6": "no", "C06/5": "yes", "C06/6": "no", "C12/5": "yes", "C12/6": "no",
 "C15/5": "no", "C16/5": "no", "C18/5": "no",
 "C13/3": "yes", "C14/3": "yes", "C15/3": "yes", "C16/3": "yes", "C17/3": "yes", "C18/3": "yes", "C19/3": "yes", "C20/3": "yes",
}
STRENGTH = {
 "C03/5": "the reserve step of an invoice payer can be repeated at any time (Op::Lock now also addresses paid invoices) and a preset replays it after the payment was mined and seen confirmed -> c03:lock-repeat-had-effect",
 "C05/6": "new negative: the target is confirmed on chain but the wallet has not refreshed since (cancel_tx's own refresh must notice), with a send without change whose confirmation only the kernel proves -> c05:cancelled-uncancellable",
 "C06/6": "NOT detected by C06 (after the crash the wallet is consistent and cancellable, as C06 states; the damage needs a second finalize). The same code change is C02/1 = C02/3 = C03/1 and is detected by C02 and C03",
 "C12/6": "NOT detected: the second, different reply to an already finalized invoice has to come from a second payer wallet (two payments of one invoice from one wallet collide on the payer's own context record); the worlds have two wallets. Op::RefinalizeOtherReply got an invoice variant, which the issuer refuses for a fee mismatch before the nonce matters",
 "C15/5": "build_coinbase naming a key the wallet holds no record for (an earlier candidate whose record is gone, or a path just ahead of the counter) -> c15:path-reused",
 "C16/5": "partial scans that start above the block which confirmed a not-yet-refreshed receive of a non-active account are generated much more often (0..3 blocks mined after it, start heights drawn in that window) -> c16:repair:delete-unconfirmed-drops-confirmed-output-of-inactive-account",
 "C18/5": "a quarter of the scans run against a node that stops answering after a generated number of calls; a failed scan is repeated with the node back, a completed one is judged -> c18:scan:not-reported-reverted",
 "C11/4": "the honest finalize is first attempted with the wallet's other account active (refused on the unchanged tree, then repeated under the sending account); if it is accepted everything downstream is judged -> c11:exported-proof-invalid",
 "C04/4": "histories may start with a pending send in each of two accounts whose log ids coincide (reserved / finalized / one of them cancelled); the scenario is also kept as regress/C04/seed4-*.json -> c04:*:ledger",
 "C17/4": "expiry part: new role self-send inside one account (sent and received entry share the slate id) and recipient that cancels and re-receives the same slate -> c17:expire:not-cancelled",
 "C20/2": "new part dwn: the node event 'node unreachable' is a scheduler thread of its own; event start states x R in {scan, refresh} x {second refresh, block accepted, node unreachable} enumerated with preemption bound 1 (R interrupted once; block, refresh and node failure land in the gap in every order) -> c20:scan-stale-chain-view-undoes-spend",
 "C20/4": "needs 3 preemptions (cancel_tx suspended before its last lock while the refresh re-reads the entry): beyond the enumerated bounds (1 quick / 2 thorough); 160 constructed schedules of that shape are replayed as regression inputs (regress/C20/cancel-suspended-*.json) -> c20:kernel-confirm-overwrites-cancel",
 "C02/3": "same code change as C02/1, but after the late-lock repair in /repo it only shows when the refusal comes from the payment-proof check (after the lock): late-locked sends may now ask for a proof, new mutation PaymentProofSigFlip, then the genuine reply -> c02:retry:sent-entries",
 "C04/3": "new op LongWait (mempool mined, 51-56 empty blocks, all wallets refresh) -> c04:*:ledger",
 "C02/1": "C02 now re-delivers the genuine reply after a refused altered one (late-locked sends kept small so a second selection is possible) and requires exactly one TxSent entry + all facts",
 "C02/2": "new reply mutation AddZeroValueOutput (extra zero-value output compensated in the offset) -> c02:fee-below-minimum",
 "C03/1": "new ops FinalizeTampered (corrupted reply, then the genuine one) -> c03:duplicate-sent-entry",
 "C03/2": "base world with equal history in both accounts (colliding per-account log ids), preset with a locked send in each account, more account switches -> c03:live-input-not-reserved",
 "C04/1": "new op ZeroConfRelay (spend an unconfirmed receive with min_conf 0, mine both, then refresh) -> c04:*:ledger",
 "C05/2": "side ops now switch accounts on the balanced base world -> c05:collateral-change",
 "C06/2": "damaged stored-tx file must be reported: get_stored_tx judged against the file parsed independently",
 "C07/1": "victim histories now contain receives that went all the way to confirmation; their first-round slates are replayed; explicit duplicate oracle",
 "C10/1": "new tamper: an address written into the clear sender field of an encrypted envelope (ciphertext untouched)",
 "C11/1": "new reply mutation: reply amount field set to another amount and proof signed over it by the recipient's real key",
 "C12/2": "caught by C03's new op RefinalizeOtherReply (a second, different reply to a finalized slate must be refused); C12 itself does not claim it",
 "C15/1": "new engine op OutOfOrderReceives (key paths reach the chain out of allocation order) in the C15 and C16 histories; first caught by C16 (second scan changes the index), then by C15 itself",
 "C17/1": "a block is mined between the reply and the late-locked finalize in half of the late-lock cases",
}
def parse_a():
    d = {}
    p = "/tmp/vs/A-results.txt"
    if os.path.exists(p):
        for l in open(p):
            m = re.match(r"SUMMARY tag=(c\d+)-OUT(\d?) ", l)
            if m:
                kv = dict(re.findall(r"(\w+)=(\[[^\]]*\]|\S+)", l))
                d["%s/%s" % (m.group(1).upper(), m.group(2) or "1")] = kv
    return d
def parse_b():
    d = {}
    p = "/tmp/vs/B-results.txt"
    cur = None
    if os.path.exists(p):
        for l in open(p):
            m = re.match(r"=== (C\d+) /tmp/mut/(c\d+)/OUT(\d?)", l)
            if m:
                cur = ("%s/%s" % (m.group(2).upper(), m.group(3) or "1"), m.group(1)); d.setdefault(cur[0], []).append({"check": cur[1], "exit": None, "sigs": []})
            elif cur and l.startswith("CHECK"):
                d[cur[0]][-1]["exit"] = int(l.strip().split("exit=")[1])
            elif cur and l.strip().startswith("signature:"):
                d[cur[0]][-1]["sigs"].append(l.split("signature:", 1)[1].strip())
    return d
A, B = parse_a(), parse_b()
res = {}
for d in sorted(glob.glob(os.path.join(ROOT, "seeded", "C*", "*"))):
    if not os.path.isdir(d): continue
    key = "%s/%s" % (os.path.basename(os.path.dirname(d)), os.path.basename(d))
    am = {}
    try: am = json.load(open(os.path.join(d, "agent_meta.json")))
    except Exception: pass
    a = A.get(key, {})
    runs = B.get(key, [])
    last = runs[-1] if runs else None
    own = [r for r in runs if r["check"] == key.split("/")[0]]
    caught_now = any(r["exit"] == 1 for r in runs[-2:]) if runs else None
    last_caught = [r for r in runs if r["exit"] == 1]
    confirmed = "?"
    if a:
        still = a.get("still_failing_alone", "[]").strip("[] ")
        confirmed = "demo without: %s, with: %s; suite %s passed%s" % (
            "pass" if a.get("demo_without_exit") == "0" else "FAIL", "fail" if a.get("demo_with_exit") not in ("0", None) else "PASS(!)",
            a.get("suite_passed", "?"), "" if not a.get("first_failed", "[]").strip("[] ") else (" (+%s re-run alone: %s)" % (a.get("first_failed").strip("[] "), "ok" if not still else "STILL FAILING " + still)))
    now = "?" if not runs else ("yes" if (runs[-1]["exit"] == 1) else ("yes (by %s)" % last_caught[-1]["check"] if last_caught and last_caught[-1] is runs[-1] else "no"))
    if runs and runs[-1]["exit"] != 1 and last_caught:
        # a later run with another check may be listed before; take any catch after the last strengthening
        now = "yes (by %s)" % last_caught[-1]["check"] if runs.index(last_caught[-1]) >= len(runs) - 2 else now
    sigs = sorted(set(s for r in runs if r["exit"] == 1 for s in r["sigs"]))[:4]
    res[key] = {
        "property": key.split("/")[0],
        "summary": (am.get("summary", "") + " NEEDS: " + str(am.get("needs_to_manifest", ""))).strip(),
        "confirmed": confirmed,
        "first": FIRST.get(key, "yes" if (runs and runs[0]["exit"] == 1) else ("no" if runs else "?")),
        "now": now,
        "notes": ("; ".join(sigs) + ((" -- " + STRENGTH[key]) if key in STRENGTH else "")).strip(),
        "check_runs": runs,
    }
    meta = {"property": key.split("/")[0], "breaks": am.get("summary", ""), "needs_to_manifest": am.get("needs_to_manifest", ""),
            "files_touched": am.get("files_touched", []), "demo_file": am.get("demo_file", ""), "demo_crate": am.get("demo_crate", ""),
            "agent_tests_run": am.get("tests_run", ""),
            "confirmed_here": {"phase_A (scratch worktree: demo without/with the change, full suite with the change)": a or "not run yet",
                               "phase_B (change applied to /repo, ./check <id>, reverted)": runs or "not run yet"},
            "what_was_run": "tools/aqueue.sh / tools/verify_seeded.sh A (scratch worktree under /tmp/vs): cargo test --test <demo> without and with patch.diff; cargo test --workspace --no-fail-fast --offline with the patch (owner_v3_* re-run alone on port collisions). tools/verify_seeded.sh B: git -C /repo apply patch.diff; ./check <id>; git -C /repo checkout -- ."}
    json.dump(meta, open(os.path.join(d, "meta.json"), "w"), indent=1)
json.dump(res, open(os.path.join(ROOT, "seeded", "results.json"), "w"), indent=1)
print(len(res), "seeds;", sum(1 for r in res.values() if str(r["now"]).startswith("yes")), "caught now")
for k, r in res.items():
    print(k, "| first:", r["first"][:12], "| now:", r["now"], "|", r["confirmed"][:70])
