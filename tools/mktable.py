#!/usr/bin/env python3
"""Regenerates DESIGN.md section 9.3b (work per tier) from the evidence files of the last quick run and the thorough
figures recorded below (taken from the thorough runs of 2026-10-05, seed 0)."""
import json, os, re
ROOT = os.path.dirname(os.path.dirname(os.path.abspath(__file__)))
THOROUGH = {
 "C01": "3.04 M cases (~50 min)", "C02": "12 000 scenarios (~28 min)", "C03": "8 000 histories <= 26 ops (~27 min)",
 "C04": "6 000 histories <= 44 ops (~60 min)", "C05": "8 000 scenarios (~21 min)", "C06": "4 000 scenarios => 70 500 fault runs, every truncation length (~55 min)",
 "C07": "10 000 request sequences (~34 min)", "C08": "424 000 cases, up to 300 commitments / 2 500 context ids (~95 min)",
 "C09": "x20 + 5 libFuzzer targets x 300 s", "C10": "4 800 messages, every position (~33 min)", "C11": "127 840 judgements (~28 min)",
 "C12": "254 000 evaluations (~29 min)", "C13": "2.3 M requests + libFuzzer 300 s (~28 min)", "C14": "570 000 calls (~23 min)",
 "C15": "5 000 histories <= 20 ops (~34 min)", "C16": "4 400 cases incl. a chain with > 1000 owned outputs (~50 min)",
 "C17": "40 000 judged refreshes (~30 min)", "C18": "2 400 fork scenarios (~25 min)", "C19": "100 k logs => 2.05 M queries (~15 min)",
 "C20": "73 300 schedules: ex2 exhaustive, preemption bound 2, 9 600 constructed, 12 000 sampled (~40 min)",
}
rows = []
for i in range(1, 21):
    pid = "C%02d" % i
    e = json.load(open(os.path.join(ROOT, "evidence", pid + ".json")))
    c = e["coverage"]
    parts = ", ".join(sorted(c.get("parts", {}).keys()))
    reg = c.get("regression_inputs", {}).get("inputs", 0)
    rows.append("| %s | %d evaluations, %d distinct non-trivial cases, %d saved inputs (%.0f s) | %s | %s |" % (
        pid, c["evaluations"], c["distinct_nontrivial"], reg, e["wall_s"], THOROUGH[pid], parts))
table = ("### 9.3b Work per tier as built\n\nQuick column: taken from the committed evidence files (seed %d, 16 shards, wall time on this 16-core box "
         "including the regression tier, excluding the one-off harness build of about 60 s). Thorough column: the runs of 2026-10-05 with seed 0 "
         "(machine shared with other jobs, so wall times are upper bounds).\n\n| id | quick | thorough | parts |\n|---|---|---|---|\n" % json.load(open(os.path.join(ROOT, "evidence", "C01.json")))["seed"]
         + "\n".join(rows) + "\n\n")
p = os.path.join(ROOT, "DESIGN.md")
s = open(p).read()
i = s.index("### 9.3b")
j = s.index("<!-- GENERATED:9.4-9.5 BEGIN -->")
open(p, "w").write(s[:i] + table + s[j:])
print("9.3b regenerated")
