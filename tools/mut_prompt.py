import json,sys
pid=sys.argv[1]
for l in open('/verif/properties.jsonl'):
    p=json.loads(l)
    if p['id']==pid: break
print(f"""You are helping to evaluate a test suite. You have your own scratch git worktree of the Rust project mimblewimble/grin-wallet (the Grin cryptocurrency reference wallet) at /tmp/mut/{pid.lower()} (detached HEAD; the first `cargo test --offline` builds everything in about 2 minutes, later ones are incremental; there is NO network: always pass --offline). Work ONLY inside /tmp/mut/{pid.lower()}. Do not read or write /repo or /verif.

Here is a semantic property the wallet is supposed to satisfy:

  Title: {p['title']}
  Statement: {p['statement']}
  Quantified over: {p['quantifier']['text']}
  Code it is anchored in: {', '.join(p['anchors']['files'])}

Your job: write a REALISTIC change to the wallet's source code — the kind of bug a developer could plausibly introduce (a refactoring slip, an off-by-one, a check moved or dropped, a stale value reused, an operation split into two steps, a wrong field compared) — that BREAKS this property, while
  (1) the project still compiles, and
  (2) the project's existing test suite still passes (`cd /tmp/mut/{pid.lower()} && cargo test --workspace --no-fail-fast --offline`; it takes several minutes, so iterate with the tests of the crates you touched first — e.g. `cargo test -p grin_wallet_libwallet --offline`, `cargo test -p grin_wallet_controller --offline --test transaction` — but the FINAL patch must pass the whole suite; doc tests count).
The change should need something SPECIFIC to manifest — a particular interleaving, a crash or fault at a particular point, a multi-step sequence of operations, an unusual input or parameter combination, or two cooperating code sites that each look fine alone — not something that ordinary use or the existing tests would expose at once. Prefer subtle semantic changes over crude ones; do not add dead code, debug flags or environment-variable triggers; the change must be plain production code. Keep it small (typically 1-15 changed lines).

Also write a DEMONSTRATION: a new Rust integration test file for one of the workspace crates (e.g. controller/tests/<name>.rs using the existing test framework in controller/tests/common and impls::test_framework, or a #[test] in libwallet/tests/) that PASSES on the unmodified tree and FAILS with your change. Verify both yourself.

Deliverables, in /tmp/mut/{pid.lower()}/OUT/ :
  - patch.diff        : `git diff` of your source change ONLY (not the demo test), applicable with `git apply` to a clean checkout
  - <demo>.rs         : the demonstration test file
  - meta.json         : {{"property": "{pid}", "summary": "...what was changed and why it breaks the property...", "needs_to_manifest": "...what specific situation is needed...", "files_touched": [...], "demo_crate": "<crate directory the demo goes into, e.g. controller or libwallet>", "demo_file": "<demo file name>", "how_to_run_demo": "...", "tests_run": "...what you ran and the results, incl. the full suite with the change..."}}
If you have time after the first one is completely verified, produce a SECOND, different change (another mechanism, another code site) in /tmp/mut/{pid.lower()}/OUT2/ with the same three files.
When done, make sure the worktree's source is back to clean (git checkout -- . ; remove your demo test from the tree) and reply briefly with what you produced.""")
