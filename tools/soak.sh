#!/bin/bash
# Runs every check in MANIFEST.json (quick tier) for several seeds; prints one line per run; exit 1 if any run is not silent.
# usage: tools/soak.sh [seeds...]   (default 1 2 3 4 5)
cd "$(dirname "$0")/.."
seeds="${@:-1 2 3 4 5}"
ids=$(python3 -c "import json;print(' '.join(c['property_id'] for c in json.load(open('MANIFEST.json'))['checks']))")
# when run from a snapshot (vp run) the relative path-deps ../../repo must resolve: link the real /repo next to the snapshot
[ -e ../repo ] || ln -sfn /repo ../repo
(cd harness && CARGO_NET_OFFLINE=true cargo build --release --offline >/dev/null 2>&1) || { echo BUILD-FAILED; exit 3; }
rc=0
for s in $seeds; do
  for id in $ids; do
    out=$(VERIF_SEED=$s ./check $id --no-build 2>&1); code=$?
    echo "seed=$s $id exit=$code :: $(echo "$out" | head -1)"
    if [ $code -ne 0 ]; then rc=1; echo "$out" | head -30; fi
  done
done
exit $rc
