#!/bin/bash
# usage: tools/verify_seeded.sh <property id> <dir with patch.diff + demo_test.rs (+ demo_crate: name of crate whose tests/ dir takes the demo)>
# Confirms in a scratch worktree (outside /repo and /verif) that the seeded change (1) applies and compiles, (2) passes the
# repository's own test suite, (3) makes the demonstration fail, and that the demonstration passes without it. Then runs the
# property's quick check with the change applied to /repo and reverts it. Prints a summary; leaves nothing behind.
set -u
id=$1; src=$(cd "$2" && pwd)
wt=/tmp/vs/wt-$id
export CARGO_TARGET_DIR=/tmp/vs/target CARGO_NET_OFFLINE=true
mkdir -p /tmp/vs
git -C /repo worktree remove --force "$wt" >/dev/null 2>&1
git -C /repo worktree add --detach "$wt" HEAD >/dev/null 2>&1 || { echo "worktree failed"; exit 3; }
cleanup() { git -C /repo worktree remove --force "$wt" >/dev/null 2>&1; }
trap cleanup EXIT
crate=$(python3 -c "import json;print(json.load(open('$src/meta.json')).get('demo_crate','controller'))")
demo=$(python3 -c "import json;print(json.load(open('$src/meta.json')).get('demo_file','demo_test.rs'))")
tname=$(basename "$demo" .rs)
mkdir -p "$wt/$crate/tests"
cp "$src/$demo" "$wt/$crate/tests/$tname.rs"
cd "$wt"
echo "== demo WITHOUT the change (must pass)"
( cd "$crate" && cargo test --offline --test "$tname" 2>&1 | grep -E "^test |test result|error" | tail -8 ); r0=${PIPESTATUS[0]}
( cd "$crate" && cargo test --offline --test "$tname" >/dev/null 2>&1 ); r0=$?
git apply "$src/patch.diff" || { echo "PATCH DOES NOT APPLY"; exit 3; }
echo "== demo WITH the change (must fail)"
( cd "$crate" && cargo test --offline --test "$tname" 2>&1 | grep -E "^test |test result|panicked|error\[" | tail -8 )
( cd "$crate" && cargo test --offline --test "$tname" >/dev/null 2>&1 ); r1=$?
rm -f "$wt/$crate/tests/$tname.rs"
echo "== repository test suite WITH the change (must pass)"
cargo test --workspace --no-fail-fast --offline > /tmp/vs/suite-$id.log 2>&1; rs=$?
grep -E "^test result" /tmp/vs/suite-$id.log | awk '{p+=$4; f+=$6} END {print "suite: passed",p,"failed",f}'
grep -E "^test .* FAILED" /tmp/vs/suite-$id.log | head
echo "== property check WITH the change applied to /repo"
cd /repo && git apply "$src/patch.diff" && ( cd /verif && ./check $id > /tmp/vs/check-$id.log 2>&1; echo "check exit=$?" ; head -6 /tmp/vs/check-$id.log | cut -c1-400 ); git -C /repo checkout -- . 
git -C /repo status --short | head -3
echo "SUMMARY id=$id demo_without=$r0 demo_with=$r1 suite=$rs"
