#!/bin/bash
# Phase A (parallelisable): tools/verify_seeded.sh A <tag> <dir with patch.diff + demo + meta.json>
#   In a scratch worktree outside /repo and /verif: the demonstration passes without the change, fails with it, and the
#   repository's own test suite still passes with the change (tests that fail are re-run alone once: several suites
#   running on one machine collide on the fixed ports of the owner_v3 tests).
# Phase B (serial): tools/verify_seeded.sh B <property id> <dir>
#   Applies the change to /repo, runs the property's quick check, reverts.
set -u
phase=$1; tag=$2; src=$(cd "$3" && pwd)
export CARGO_NET_OFFLINE=true
if [ "$phase" = "A" ]; then
  wt=/tmp/vs/wt-$tag
  export CARGO_TARGET_DIR=/tmp/vs/target-$tag
  mkdir -p /tmp/vs
  git -C /repo worktree remove --force "$wt" >/dev/null 2>&1
  git -C /repo worktree add --detach "$wt" HEAD >/dev/null 2>&1 || { echo "worktree failed"; exit 3; }
  crate=$(python3 -c "import json;print(json.load(open('$src/meta.json')).get('demo_crate','controller'))")
  demo=$(python3 -c "import json;print(json.load(open('$src/meta.json')).get('demo_file','demo_test.rs'))")
  demo=$(basename "$demo"); tname=$(basename "$demo" .rs)
  mkdir -p "$wt/$crate/tests"; cp "$src/$demo" "$wt/$crate/tests/$tname.rs"
  cd "$wt/$crate"
  cargo test --offline --test "$tname" > /tmp/vs/demo0-$tag.log 2>&1; r0=$?
  cd "$wt"; git apply "$src/patch.diff" || { echo "SUMMARY tag=$tag PATCH-DOES-NOT-APPLY"; exit 3; }
  cd "$wt/$crate"; cargo test --offline --test "$tname" > /tmp/vs/demo1-$tag.log 2>&1; r1=$?
  rm -f "$wt/$crate/tests/$tname.rs"; cd "$wt"
  cargo test --workspace --no-fail-fast --offline > /tmp/vs/suite-$tag.log 2>&1; rs=$?
  failed=$(grep -E "^test .* \.\.\. FAILED" /tmp/vs/suite-$tag.log | awk '{print $2}' | sort -u | tr '\n' ' ')
  still=""
  if [ -n "$failed" ]; then
    for t in $failed; do
      sleep $((RANDOM % 20))
      cargo test --workspace --offline "$t" > /tmp/vs/rerun-$tag-$(echo $t | tr ':' '_').log 2>&1 || still="$still $t"
    done
  fi
  pass=$(grep -E "^test result" /tmp/vs/suite-$tag.log | awk '{p+=$4} END {print p}')
  echo "SUMMARY tag=$tag demo_without_exit=$r0 demo_with_exit=$r1 suite_exit=$rs suite_passed=$pass first_failed=[${failed}] still_failing_alone=[${still}]"
  git -C /repo worktree remove --force "$wt" >/dev/null 2>&1
  rm -rf "$CARGO_TARGET_DIR"
else
  cd /repo && git status --short | grep -q . && { echo "/repo not clean"; exit 3; }
  git apply "$src/patch.diff" || { echo "PATCH-DOES-NOT-APPLY to /repo"; exit 3; }
  ( cd ${VQ:-/verif} && ./check $tag > /tmp/vs/check-$tag.log 2>&1; echo "CHECK $tag exit=$?"; grep -E "^(VIOLATION|  signature|KNOWN|C[0-9]+ tier|INCONCL|HARNESS|BUILD)" /tmp/vs/check-$tag.log | cut -c1-300 | head -12 )
  git -C /repo checkout -- . ; git -C /repo status --short | head -3
fi
