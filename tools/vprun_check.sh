#!/bin/bash
# For `vp run`: run one check from a snapshot of /verif against the real /repo.  usage: tools/vprun_check.sh <Cxx> [quick|thorough] [seed]
cd "$(dirname "$0")/.."
[ -e ../repo ] || ln -sfn /repo ../repo
VERIF_SEED=${3:-0} ./check "$1" --tier "${2:-quick}"
echo "exit=$?"
